#!/usr/bin/env python3
"""costtable.py <quick runall log> [<thorough runall log>] — prints the DESIGN.md section 6 table from driver/runall.sh logs."""
import re, sys
def parse(path):
    out = {}
    for line in open(path):
        m = re.match(r'(C\d\d) (quick|thorough) seed=\d+ rc=(\d+) (\d+)s .*?(\d+) evaluations, (\d+) distinct non-trivial', line)
        if m:
            out[m.group(1)] = (int(m.group(4)), int(m.group(5)), int(m.group(6)), m.group(3))
        else:
            m = re.match(r'(C\d\d) (quick|thorough) seed=\d+ rc=(\d+) (\d+)s', line)
            if m and m.group(1) not in out:
                out[m.group(1)] = (int(m.group(4)), None, None, m.group(3))
    return out
def fmt(n):
    if n is None: return "-"
    e = len(str(n)) - 1
    return "%.1f·10^%d" % (n / 10 ** e, e) if n >= 10000 else str(n)
q = parse(sys.argv[1]); t = parse(sys.argv[2]) if len(sys.argv) > 2 else {}
print("| | quick wall | evaluations | distinct non-trivial | thorough wall | thorough evaluations |")
print("|---|---|---|---|---|---|")
for k in sorted(q):
    tw = t.get(k)
    print("| %s | %d s | %s | %s | %s | %s |" % (k, q[k][0], fmt(q[k][1]), fmt(q[k][2]), ("%d s" % tw[0]) if tw else "-", fmt(tw[1]) if tw else "-"))
print("\ntotal quick: %d s" % sum(v[0] for v in q.values()) + ("; total thorough: %d s" % sum(v[0] for v in t.values()) if t else ""))
