#!/usr/bin/env python3
"""Regenerates /verif/MANIFEST.json from the table below (kept in one place so the manifest is always valid)."""
import json, os
ROOT = os.path.dirname(os.path.dirname(os.path.abspath(__file__)))

CLAIMED = {
 "C17": dict(
   technique="property-based testing: exhaustive operand grid + rapid-generated filter chains against an exact rational-arithmetic reference (math/big)",
   text="Every pair of the numeric universe through every numeric filter (exhaustive, both tiers) and random chains of up to 6 filters are compared with exact rational arithmetic; errors are required for zero divisors and non-numeric strings. Generated search is the right level: the property is a statement about all operand pairs, and the reference is a dozen lines of big.Rat code.",
   note="Trusted: math/big, strconv.ParseFloat, the harness's reading of 'exactly representable' (operands, intermediates and result convert to float64 without rounding). Unspecified by the statement and therefore not asserted: nil operands, numeric strings as arguments, sign of modulo with negative operands, direction of inexact integer division, integer results beyond 2^62.",
   ref="DESIGN.md 7.C17"),
}

REASON_PENDING = "check not built yet in this snapshot of /verif (planned: see DESIGN.md section 7); nothing is claimed for it"

def main():
    props = [json.loads(l) for l in open(os.path.join(ROOT, "properties.jsonl")) if l.strip()]
    checks, na = [], []
    for p in props:
        pid = p["id"]
        c = CLAIMED.get(pid)
        if not c:
            na.append({"property_id": pid, "reason": REASON_PENDING})
            continue
        checks.append({
            "property_id": pid,
            "quick_cmd": "./run %s quick" % pid,
            "thorough_cmd": "./run %s thorough" % pid,
            "evidence_file": "/verif/evidence/%s.json" % pid,
            "replay_cmd_template": "./run replay {path}",
            "engine": "harness",
            "level_claimed": {"category": c.get("category", "exploration"), "text": c["text"], "design_ref": c["ref"]},
            "level_note": c["note"],
            "technique": c["technique"],
        })
    m = {
        "version": 1,
        "setup_cmd": "./run setup",
        "hooks": {
            "guard": "verif",
            "enable": "go build tag 'verif' (the harness builds with -tags verif); no hook commits exist: every observation point is public API",
            "baseline_off_cmd": "cd /repo && GOFLAGS=-mod=mod go test -vet=off -count=1 ./...",
            "source_commits": [],
            "add_only": True,
        },
        "engines": [{
            "name": "harness", "path": "/verif/harness",
            "serves_properties": sorted(CLAIMED),
            "kind_free_text": "Go test binary (pgregory.net/rapid v1.3.0 generators + bounded-exhaustive enumerations + native go fuzzing in the thorough tier), rebuilt from /repo's working tree on every run through a replace directive; orchestrated by driver/verifdrv.py",
        }],
        "checks": checks,
        "notes": "Exit codes: 0 held / 1 VIOLATION / 2 cannot decide. KNOWN_FINDINGS.txt lists recorded findings and fixed defects. See DESIGN.md.",
        "not_applicable": na,
    }
    with open(os.path.join(ROOT, "MANIFEST.json"), "w") as f:
        json.dump(m, f, indent=1)
        f.write("\n")

if __name__ == "__main__":
    main()
