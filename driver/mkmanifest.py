#!/usr/bin/env python3
"""Regenerates /verif/MANIFEST.json from the table below (kept in one place so the manifest is always valid)."""
import json, os
ROOT = os.path.dirname(os.path.dirname(os.path.abspath(__file__)))

CLAIMED = {
 "C17": dict(
   technique="property-based testing: exhaustive operand grid + rapid-generated filter chains against an exact rational-arithmetic reference (math/big)",
   text="Every pair of the numeric universe through every numeric filter (exhaustive, both tiers) and random chains of up to 6 filters are compared with exact rational arithmetic; errors are required for zero divisors and non-numeric strings. Generated search is the right level: the property is a statement about all operand pairs, and the reference is a dozen lines of big.Rat code.",
   note="Trusted: math/big, strconv.ParseFloat, the harness's reading of 'exactly representable' (operands, intermediates and result convert to float64 without rounding). Unspecified by the statement and therefore not asserted: nil operands, numeric strings as arguments, sign of modulo with negative operands, direction of inexact integer division, integer results beyond 2^62.",
   ref="DESIGN.md 7.C17"),
 "C01": dict(
   technique="bounded-exhaustive filter/operator matrix over a boundary-value universe + rapid-generated hostile programs, mutations of the repository's test templates and dictionary byte strings (native go fuzzing in the thorough tier); crash/termination oracle",
   text="Every standard filter (names read from the repository's sources at run time) x every receiver/argument tuple of an ~85-value boundary universe, every operator, lookup, loop modifier, case/when and range form over the universe, plus generated hostile programs, mutated repository templates and dictionary byte strings, are parsed and rendered under a panic guard, a hang/memory watchdog and a process supervisor; the result must be output xor a usable SourceError. Exploration is the right level: the property is a universally quantified robustness claim.",
   note="Trusted: Go's recover/runtime stack inspection, the watchdog budgets (60 s / 3 GiB per case). Inputs that are legitimately unbounded (ranges that can exceed 10^6 elements) or would leave the sandbox (include paths with separators) are excluded by construction and counted. Asymptotic cost is not measured, only termination within the budget.",
   ref="DESIGN.md 7.C01"),
 "C09": dict(
   technique="property-based testing: exhaustive operand-pair enumeration with algebraic coherence laws and a three-valued reference model; rapid-generated and/or combinations",
   text="All ordered pairs of the plain-data universe (every kind, numeric width, Drops, pointers) under all nine operators in both directions and both forms are checked for: never an error, object form = if form, the coherence laws of the statement, and the value rules of a small reference model where the statement fixes the answer.",
   note="Trusted: the reference comparison in harness/hx/model.go. Unspecified (not asserted): ordering of booleans/arrays/maps, string contains non-string, integers beyond 2^53 against floats. Go range values and ordered YAML maps take part for the coherence laws only (the statement gives those for all operands, the value rules for nil, booleans, numbers, strings, arrays and maps); a bound slice and Go re-slices of it are compared in a list of their own.",
   ref="DESIGN.md 7.C09"),
 "C11": dict(
   technique="property-based testing: bounded-exhaustive loop grid with a trace oracle, multiset oracle for maps, and rapid-generated loop nestings against a reference interpreter",
   text="The full grid of collection length x offset x limit x reversed x for/tablerow(cols) x break/continue position x else, over six collection representations and all small range endpoint pairs, renders a trace record per iteration that is compared with the reverse-skip-take model and the forloop formulas; maps are compared as multisets; random nestings with cycles and jumps are compared with the reference interpreter; cycle values that begin or end with white space must come out exactly beside hyphenated neighbours; break and continue inside capture / if / unless / case must act on the innermost enclosing loop.",
   note="Trusted: the reference interpreter (harness/hx/model.go) and the trace parser. Unspecified: negative offset/limit (only internal consistency of the trace is asserted), iteration order of maps, break inside tablerow (cell text only), two cycle tags of one group with different value lists.",
   ref="DESIGN.md 7.C11"),
 "C12": dict(
   technique="property-based testing: rapid-generated programs against a reference interpreter, the capture-equivalence metamorphic relation, and exhaustive families (a Drop over live state shadowed by a loop; names bound by assign/capture read inside an included file)",
   text="Generated programs interleaving assign, capture, loops that shadow outer names and forloop, conditionals and cycles end with a read of every variable and are compared with the reference interpreter; every generated fragment F is also rendered directly and through capture+print, which must agree; a name bound by assign or capture (also the names forloop, tablerowloop, include, page) must read the same inside an included file, on disk or cached, included at top level, in a loop, after a shadowing loop, inside an if.",
   note="Trusted: the reference interpreter. The include clause of the statement is exercised by C14's check (included templates read assigned variables, among them one the top template calls forloop). Outcomes the statements leave open are counted as unspecified and asserted nowhere.",
   ref="DESIGN.md 7.C12"),
 "C10": dict(
   technique="property-based testing: exhaustive branch-position enumeration with counting/failing conditions, exhaustive case subject x when pairs, if/unless duality as a metamorphic relation, rapid-generated programs against a reference interpreter",
   text="Every universe value in every position of if/elsif/else chains (and unless) with the later conditions replaced by counting, failing, unknown and dividing-by-zero filters; every subject/when pair for case; the if/unless duality on generated conditions including failing ones; and generated conditional programs against the reference interpreter with tick counts.",
   note="Trusted: the reference interpreter's truthiness and ==. Within one and/or expression the statement does not promise short-circuiting, so tick counts are checked against a [short-circuit, eager] interval. case/when pairs whose equality the statement leaves open are counted as unspecified.",
   ref="DESIGN.md 7.C10"),
 "C08": dict(
   technique="property-based testing: exhaustive index grid, rapid-generated lookup paths and expression trees against a reference model, and three metamorphic relations (pipeline = assign decomposition, spacing invariance, strict = lax unless final nil)",
   text="The array-length x index grid is swept completely; generated lookup paths over nested bindings and expression trees are compared with the reference model in normal and strict mode; every standard filter takes part in generated pipelines that must render exactly like their one-step-at-a-time assign decomposition; programs printed under two whitespace policies must render identically; unknown filters and excess arguments (five, and exactly one more than the filter takes) must be errors; a list of maps with string, integer, float and interface key types and an ordered map is indexed by keys of another kind, by numbers the key type cannot hold and by equal numbers of another width (a key is a key by its value).",
   note="Trusted: the reference lookup/printing model; the harness's filter arity table only steers generation (the relation itself is between two executions of the implementation). Unspecified: float indices, size of a string through property syntax, printing arrays/maps/ranges, exponent notation.",
   ref="DESIGN.md 7.C08"),
 "C15": dict(
   technique="property-based testing: bounded-exhaustive arrays x representations x filters plus rapid-generated arrays, records and filter chains against reference functions; input-unchanged invariant by deep fingerprint; representation invariance as a metamorphic relation",
   text="All arrays up to length 3 (4 in the thorough tier) over three small alphabets with and without nil, in every Go representation, through every array filter, then random arrays, arrays of maps (sort/map by key) and chains; results are compared with reference functions, the input must iterate identically afterwards and its Go value's deep fingerprint must not change, and each representation must render like the equal []any.",
   note="Trusted: the reference functions in c15_test.go and hx/model.go, hx.Fingerprint. Unspecified: position of nil elements and order among ties in sort, sort of mixed kinds, join over nested containers.",
   ref="DESIGN.md 7.C15"),
 "C16": dict(
   technique="property-based testing: bounded-exhaustive strings x filters x arguments and rapid-generated long strings against per-filter reference functions and round-trip/idempotence relations",
   text="All strings up to length 3 (4 thorough) over a 9-character alphabet with multi-byte characters and HTML/URL specials, through every string filter with all integer arguments -3..12 and short string arguments, plus random strings up to 200 characters, number/bool/nil receivers and split/join round trips, are compared with character-based reference functions, round-trip relations (escape/unescape, url_encode/url_decode), idempotence (escape_once) and UTF-8 validity.",
   note="Trusted: Go's strings/unicode/html/net/url packages used as references. Unspecified: empty search strings, out-of-range slice arguments (only 'a piece, never longer'), truncate below the ellipsis length, truncatewords < 1, size of non-string receivers, malformed url_decode input.",
   ref="DESIGN.md 7.C16"),
 "C18": dict(
   technique="property-based testing: metamorphic relation between two realisations of the same logical bindings (canonical vs independently re-represented at every node), on rapid-generated role-typed programs, an exhaustive numeric-width grid and an exhaustive filter x universe x wrapping sweep",
   text="Role-typed generated programs are rendered against canonical bindings and against bindings in which every node independently takes another representation the statement names (numeric width, typed slice/array/map, ordered map, []byte, Drop at any depth incl. Drop-of-Drop, pointer); every numeric value x width x operator and every filter x universe value x {Drop, nested Drop, pointer, Drop-wrapped elements} as receiver and as argument must render as the unwrapped/canonical form; pointers to times, ints and strings reached as variables, struct fields, map entries, loop variables and slice elements must render as what they point to (nil ones as nil).",
   note="Trusted: hx.Spec.Realise builds equal logical values. Representations are only used in the positions the statement names (ordered map only lookup and size, []byte only printed, arrays with Drop elements not where a string is expected; numbers of every width also as index, range bound, limit/offset/cols and integer filter arguments; typed slices of every integer width in every position); type/inspect/json report the Go value by design and are unspecified.",
   ref="DESIGN.md 7.C18"),
 "C13": dict(
   technique="property-based testing: metamorphic relations between the hyphen-free and the hyphenated spelling of rapid-generated templates, exhaustive over the hyphen subsets of each template (2^k for k <= 10)",
   text="For generated templates with whitespace-rich text and values, every subset of hyphen slots (all 2^k when k <= 10, samples beyond) is rendered and related to the hyphen-free render: equal modulo whitespace, obtainable by deleting whitespace only, and - when every hyphen faces literal text - equal to the template with exactly that adjacent whitespace deleted.",
   note="All three relations are between executions of the implementation; the harness only decides statically which text token a hyphen faces (after merging adjacent text). Hyphens on the inner side of raw/comment are excluded from the strong relation (C05 governs raw bodies).",
   ref="DESIGN.md 7.C13"),
 "C05": dict(
   technique="property-based testing: bounded-exhaustive strings over the delimiter alphabet plus rapid-generated byte/UTF-8 strings (native go fuzzing of the tokenizer in the thorough tier) against the tokenizer partition law, the identity law, the raw/comment laws and exact value printing (also next to whitespace-control hyphens)",
   text="Every string up to length 6 (8 thorough) over { } % - quote space newline a, and random strings up to 64 KiB, are tokenized and checked against the partition law (sources concatenate to the input, trim tokens zero-width, line = start + preceding newlines); strings without openers must render to themselves; every self-contained raw/comment body must come out verbatim / vanish without being evaluated; string values of any bytes must be printed exactly.",
   note="Trusted: the reference scan that decides whether a raw/comment body keeps to itself (bodies that swallow their closer are outside the statement and are excluded and counted).",
   ref="DESIGN.md 7.C05"),
 "C06": dict(
   technique="property-based testing: bounded-exhaustive token sequences plus rapid-generated well-nested / one-edit-away trees against a reference acceptor (stack machine), tree isomorphism and a marker render",
   text="Every token sequence up to length 5 (6 thorough) over the 22-symbol alphabet of block, clause, end, plain, object and text tokens is parsed and compared with a reference stack-machine acceptor; rejected sources must render nothing; accepted ones must have a render tree equal to the reference tree and must render exactly the markers of the first branches. Random trees to depth 40 and their one-edit neighbours extend the scope.",
   note="Trusted: the 60-line reference acceptor in c06_test.go (its clause-admission table restates the statement). Branch choice when else is not the last clause, and a for with several else clauses, are left to C10/C11 (unspecified here).",
   ref="DESIGN.md 7.C06"),
 "C07": dict(
   technique="property-based testing: product of failing-construct kinds x nesting depth x path x starting line with generated layouts; oracle computed from the construction (newline count before the failing token) and the cause (the filter's own error through its FilterError wrapper; a conversion error as Cause() itself)",
   text="44 kinds of failing construct (among them a method or function field of a bound struct that returns an error, and a caller-registered tag and block that expand objects in their arguments) are placed at every depth 0..6 of entered blocks, with generated newline layouts and multi-line tags, parsed with and without a path and with starting lines 0/1/37; the error's LineNumber, Path, message and Cause chain are compared with what the construction determines, and Render must not return output with an error.",
   note="Trusted: the harness's own bookkeeping of where the failing token starts; for unclosed blocks the expected location is the first token the C06 reference acceptor rejects (or the opener at end of input). Message text is only checked for naming the offending filter/tag or carrying the sentinel.",
   ref="DESIGN.md 7.C07"),
 "C19": dict(
   technique="property-based testing: metamorphic relation between a custom-delimiter engine on the re-spelled template and the default engine on the default spelling; exhaustive small delimiter quadruples plus rapid-generated ones (native go fuzzing of the quadruple in the thorough tier)",
   text="All valid quadruples of length-1 strings over < > [ ] \\ ^ with every subset of positions left empty (and all length <= 2 quadruples in the thorough tier) plus random quadruples up to length 4 are applied to generated templates with hyphens, raw/comment blocks and a failing last line; output bytes or the error's line number must equal the default spelling on a default engine, and default delimiter strings must be plain text for other delimiters; a final tag shorter than the object delimiter, and a caller-registered tag that expands objects in its argument (ExpandTagArg), must behave as under the default spelling.",
   note="Templates whose contents contain a delimiter character are outside the statement ('a template written with them') and are excluded and counted. Trusted: hx.Spell produces the same token sequence under both spellings.",
   ref="DESIGN.md 7.C19"),
 "C20": dict(
   category="fault_enumeration",
   technique="fault injection driven by property-based generation: for each rapid-generated program every write call k x {nothing accepted, strict prefix accepted} x {FRender, ParseAndFRender} x {the writer keeps failing, fails only that once} is failed with a sentinel writer; prefix, error-names-and-wraps-the-sentinel and stop-of-evaluation oracles",
   text="For every generated program (all tags, include, hyphens) the write calls of a fault-free render are enumerated and each one is failed in turn, in four modes and through both entry points: the call must return a non-nil SourceError whose message names and whose cause chain reaches the writer's error, never panic, the accepted bytes must be a prefix of the fault-free output, and counting filters show that evaluation stopped. Enumeration over k is exhaustive per program; programs are sampled.",
   note="Trusted: the recording/fault writers and the counting filter. 'Stops' is asserted with one buffered write of slack (the trim writer holds the last write back) and at most one further Write call, which must hand over the chunk that follows in the fault-free output; every other fault point fails with an error value of an unhashable type.",
   ref="DESIGN.md 7.C20"),
 "C14": dict(
   technique="property-based testing: metamorphic relation include = the selected content rendered on its own (capture) and inserted as a value, over rapid-generated include graphs laid out in temporary directories with per-file disk/cache/both/empty/missing states",
   text="Generated include graphs (chains to depth 4, leaves in nested directories, equal base names with distinct content) with every file independently on disk, cache-only, in both with different content, zero bytes on disk, or missing, and include arguments spelled six ways, must render exactly like the template in which every include is replaced recursively by the content the statement selects; missing files, non-string arguments and errors inside included templates (also a break or continue outside every loop of the included file, with the include tag inside a loop) must fail the render without output; cached source must be used when the file cannot be read for another reason than ENOENT, whatever the caller later does with the buffer it registered, and a file name of a named string type is a file name.",
   note="Trusted: the harness's inliner (disk over cache). Relative names are resolved against the directory of the path the rendered (top-level) template was parsed with, at every depth; a second top-level template in a sub-directory is rendered on the same engine for a third of the cases; variables assigned inside an included template are not probed afterwards; hyphenated tags and objects of the includer facing an include tag are generated (the included output is inserted exactly, as a value is); cached sources are sometimes registered under a path that is not in its shortest form, and a file is sometimes deleted between registration and render; for a quarter of the cases the top template assigns a variable called forloop and every file prints it. Temporary directories live under the run's scratch directory and are removed per case.",
   ref="DESIGN.md 7.C14"),
 "C02": dict(
   technique="property-based testing: identity relation over ~21 executions per generated case (entry points, re-parses, fresh engines, a fresh process, the command-line binary) with bindings re-realised in other insertion orders and at other addresses",
   text="Each generated template (emphasis on maps of 2..12 entries consumed by for/tablerow/array filters/printing/json, pointer-bearing values, Drops, int- and mixed-keyed maps) is rendered about 21 times through every entry point, on fresh parses and engines and for a subset in a fresh process, every time against freshly built bindings with permuted map insertion order while older realisations stay alive; all results must be byte-identical. String-only environments are also run through the built cmd/liquid binary.",
   note="With 8+ entries and 20 renders an order dependence escapes with probability < 1e-12; address dependence is exposed by re-realising bindings (a deterministic Go program gets the same addresses in every process). The date filter with 'now' and the time zone are not exercised (excepted by the statement). Printing a value that holds a pointer (a defect of the pinned tree, long recorded and repaired in the end) has a dedicated sub-check over every place where a value becomes text.",
   ref="DESIGN.md 7.C02"),
 "C03": dict(
   technique="stateful property-based testing: rapid-generated render histories over a pool of templates and shared binding environments, with invariants after every step (deep fingerprint, first-result equality, pristine-engine equality, variable probe)",
   text="Histories of 2..40 renders/reparses over 4..7 templates (some failing part-way depending on the bindings) and 2..4 environments that are realised once and shared by reference; after every step every environment's deep fingerprint (including spare slice capacity) must be unchanged, the render must equal its first result and the result on a fresh engine with fresh equal bindings, and a probe of all assignable and loop variables must render as with fresh bindings.",
   note="Trusted: hx.Fingerprint (reflect-based deep walk incl. unexported fields, pointer targets and slice capacity). The template object's immutability is observed through its outputs, not by inspecting its memory.",
   ref="DESIGN.md 7.C03"),
 "C04": dict(
   technique="property-based testing under the Go race detector: rapid-generated concurrent parse/render workloads on shared engine, templates and bindings, each case a subtest so that a race report is attributed to it; differential oracle against the sequential results",
   text="Generated workloads of 2..32 goroutines (barrier-released, GOMAXPROCS 2/4/16) parse and render 1..5 templates covering every standard tag and every standard filter on one engine, one set of parsed templates and one shared binding environment with Drops, pointers and spare capacity; the race detector must stay silent and every concurrent result must equal the same operation run alone (on a separately parsed copy of the templates, so that first renders happen concurrently; on a cold engine the goroutines go first). A quarter of the cases use delimiters of their own; custom tag/block using render.Context services and all six entry points take part; a worker stopped by the Go runtime's concurrent-map check inside library code counts as a race.",
   note="Schedules are sampled, not enumerated; the race detector's happens-before analysis makes detection of an executed unsynchronised access pair independent of timing, but a race on a path no generated template executes is out of reach. The static half of the quantifier ('no render-time closure writes a compile-time variable') is a static-analysis obligation outside this technique family and is not claimed. The detector reports each stack pair once per process, so cases grow in size with their index and the first reporting case is kept as the replay.",
   ref="DESIGN.md 7.C04"),
}

REASON_PENDING = "check not built yet in this snapshot of /verif (planned: see DESIGN.md section 7); nothing is claimed for it"

def main():
    props = [json.loads(l) for l in open(os.path.join(ROOT, "properties.jsonl")) if l.strip()]
    checks, na = [], []
    for p in props:
        pid = p["id"]
        c = CLAIMED.get(pid)
        if not c:
            na.append({"property_id": pid, "reason": REASON_PENDING})
            continue
        checks.append({
            "property_id": pid,
            "quick_cmd": "./run %s quick" % pid,
            "thorough_cmd": "./run %s thorough" % pid,
            "evidence_file": "/verif/evidence/%s.json" % pid,
            "replay_cmd_template": "./run replay {path}",
            "engine": "harness",
            "level_claimed": {"category": c.get("category", "exploration"), "text": c["text"], "design_ref": c["ref"]},
            "level_note": c["note"],
            "technique": c["technique"],
        })
    m = {
        "version": 1,
        "setup_cmd": "./run setup",
        "hooks": {
            "guard": "verif",
            "enable": "go build tag 'verif' (the harness builds with -tags verif); no hook commits exist: every observation point is public API",
            "baseline_off_cmd": "cd /repo && GOFLAGS=-mod=mod go test -vet=off -count=1 ./...",
            "source_commits": [],
            "add_only": True,
        },
        "engines": [{
            "name": "harness", "path": "/verif/harness",
            "serves_properties": sorted(CLAIMED),
            "kind_free_text": "Go test binary (pgregory.net/rapid v1.3.0 generators + bounded-exhaustive enumerations + native go fuzzing in the thorough tier), rebuilt from /repo's working tree on every run through a replace directive; orchestrated by driver/verifdrv.py",
        }],
        "checks": checks,
        "notes": "Exit codes: 0 held / 1 VIOLATION / 2 cannot decide. KNOWN_FINDINGS.txt lists recorded findings and fixed defects. See DESIGN.md.",
        "not_applicable": na,
    }
    with open(os.path.join(ROOT, "MANIFEST.json"), "w") as f:
        json.dump(m, f, indent=1)
        f.write("\n")

if __name__ == "__main__":
    main()
