#!/bin/bash
# runall.sh [quick|thorough] [ids...] — run the checks one after another on the current tree; print exit code and wall time
tier=${1:-quick}; shift
ids=${@:-C01 C02 C03 C04 C05 C06 C07 C08 C09 C10 C11 C12 C13 C14 C15 C16 C17 C18 C19 C20}
cd "$(dirname "$(readlink -f "$0")")/.."
for id in $ids; do
  s=$(date +%s)
  out=$(./run $id $tier 2>&1); rc=$?
  e=$(( $(date +%s) - s ))
  echo "$id $tier seed=${VERIF_SEED:-1} rc=$rc ${e}s $(echo "$out" | grep -c '^KNOWN-FINDING') known-findings $(echo "$out" | sed -n 2p | cut -c1-100)"
  if [ $rc -ne 0 ]; then echo "$out" | grep -A4 'VIOLATION\|INCONCLUSIVE' | cut -c1-600 | head -30; fi
done
