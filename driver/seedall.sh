#!/bin/bash
# seedall.sh [ids…] — run every stored seeded change against the quick check of its own property
# (and the extra checks listed in EXTRA) and write seeded/RESULTS.tsv: id, check run, exit code, reporting sub-check, signature.
# Patches /repo for the duration of each run: nothing else may use /repo meanwhile.
cd /verif
declare -A EXTRA=( [C01-m6]=C04 [C06-m6]=C19 [C12-m6]=C15 [C05-m6]=C13 [C04-m6]=C03 [C10-m2]=C06 [C18-m2]=C15 [C03-m2]=C15 [C05-m3]=C13 [C05-m4]=C02 [C06-m8]=C13 [C09-m8]=C01 [C13-m7]=C19 [C15-m7]=C18 [C02-m7]=C19 [C02-m9]=C19 [C05-m10]=C06 [C05-m1]=C13 )
ids=${@:-$(ls seeded | grep -- '-m')}
out=seeded/RESULTS.tsv
[ $# -eq 0 ] && : > $out
for id in $ids; do
  prop=${id%%-*}
  for p in $prop ${EXTRA[$id]:-}; do
    log=$(SEEDLINES=400 driver/seedtest.sh /verif/seeded/$id/patch.diff $p quick 2>&1)
    rc=$(echo "$log" | sed -n 's/^seedtest .* exit=\([0-9]*\)$/\1/p' | tail -1)
    sig=$(echo "$log" | sed -n 's/^  check=\([^ ]*\) sig=\(.*\)$/\1\t\2/p' | head -1 | cut -c1-160)
    printf '%s\t%s\t%s\t%s\n' "$id" "$p" "${rc:-?}" "${sig:--	-}" | tee -a $out
  done
done
