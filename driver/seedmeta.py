#!/usr/bin/env python3
"""Writes seeded/<id>/meta.json from the table below (what each seeded change breaks, what it needs, what was run)."""
import json, os
ROOT = os.path.dirname(os.path.dirname(os.path.abspath(__file__)))
T = {
 "C01-m1": ("C01", "truncatewords trims with an ASCII-only whitespace set while it searches with unicode.IsSpace: a string containing a non-ASCII space (NBSP, form feed, ...) together with a huge word count never returns", "c01.matrix (sig hang/slow) after the universe gained strings with Unicode white space; missed before that"),
 "C01-m2": ("C01", "cycle stores the position modulo its own length in the per-group counter: two cycle tags of one group with different lengths in one loop panic (index out of range)", "c01.matrix form cycle2 (all ordered pairs of cycle argument lists in one loop), added after the first run missed it"),
 "C03-m1": ("C03", "cycle counters live in the compiled loop tag and are cleared after the loop, except on the early error return: a render that fails mid-loop leaves cycle positions behind for the next render of the same Template", "c03.history"),
 "C03-m2": ("C03", "compact filters in place (result = a[:0]): applied directly to a []any binding with a nil followed by a non-nil element it overwrites the caller's slice", "c03.history (fingerprint) and c15.apply (input-modified)"),
 "C08-m1": ("C08", "mapValue.PropertyValue reuses IndexValue and treats the interned nil as 'key absent': a map whose size key is bound to nil answers a.size with the entry count", "c08.expr (nested bindings carry nil-valued size keys)"),
 "C08-m2": ("C08", "the strict-variables nil test moved into the recursive writeObject: in strict mode an array with a nil element fails although its final value is not nil", "c08.expr strict probe (sig c08:strict-rejects-value), added after the first run missed it"),
 "C09-m1": ("C09", "mixed-signedness integers are compared through float64: int64(MaxInt64) == uint64(2^63)", "c09.pair"),
 "C09-m2": ("C09", "ToLiquid dropped from Equal/Less: Drops nested in arrays are no longer resolved in element-wise equality and contains", "c09.pair"),
 "C10-m1": ("C10", "case skips values.Equal when the when value's Go type differs from the subject's: case 1 / when 1.0 (or int64 vs int, uint8 vs int) misses", "c10.case"),
 "C10-m2": ("C10", "the parser no longer restores the clause's append point after a nested block ends: content after a block nested in else/elsif/when moves to the head branch", "c10.programs (also c06.tree)"),
 "C11-m1": ("C11", "forloop and the loop variable are restored after the loop by straight-line code that a break skips", "c11.grid (sig c11:not-restored)"),
 "C11-m2": ("C11", "offset and limit collapsed into one window wrapper that loses the clamp: offset beyond the length gives a negative length and the else branch is skipped", "c11.grid"),
 "C12-m1": ("C12", "the pre-loop forloop is only remembered when it is a loop record: a template-assigned forloop is lost after a loop", "c12.model, after the generator learned to assign forloop; missed before"),
 "C12-m2": ("C12", "capture takes its variable name with ^[A-Za-z_]\\w*: names with a hyphen or a trailing ? bind a truncated name", "c12.model, after the generator learned hyphenated / ?-suffixed names; missed before"),
 "C14-m1": ("C14", "RenderFile treats an empty read as 'not on disk': a zero-byte file no longer takes precedence over cached source", "c14.graph"),
 "C14-m2": ("C14", "include takes a 'plain quoted file name' fast path when the argument starts and ends with the same quote, swallowing filtered expressions such as \"card\" | append: \".html\"", "c14.graph"),
 "C15-m1": ("C15", "concat becomes append(a, b...): with a []any receiver that has spare capacity the second concat of the same receiver overwrites the first result and the caller's backing array", "c15.apply (input-modified: the fingerprint now covers a slice's spare capacity; bindings get random capacity; the filter is applied twice) - missed before those three additions"),
 "C15-m2": ("C15", "sort by key uses the shared property lookup, so for the key names size/first/last an entry lacking the key is given its entry count instead of sorting first", "c15.apply after records got the key names size/first/last and extra entries; missed before"),
 "C16-m1": ("C16", "slice normalises a negative start with the byte length instead of the character count: \"aé\" | slice: -1", "c16.apply"),
 "C16-m2": ("C16", "truncatewords' 'only white space follows' guard simplified to end == len(s): a string of exactly n words that ends in white space gets the ellipsis", "c16.apply"),
 "C18-m1": ("C18", "Equal takes a same-type shortcut for comparable types: two [N]any arrays are compared with Go ==, so a Drop / int8 / float element no longer equals the plain value", "c18.equality (added after the first run missed it)"),
 "C18-m2": ("C18", "uniq filters in place (result = a[:0]) and overwrites a bound []any", "c18.programs (also c15.apply input-modified, c03.history)"),
 "C05-m1": ("C05", "trim-token cases moved ahead of the comment/raw mode checks in the parser: hyphenated tag-like text inside a raw or comment body becomes live trim nodes and eats white space of the body", "c05.raw-comment"),
 "C05-m2": ("C05", "the tokenizer counts newlines only in a token's arguments, not in the padding next to the delimiters: later tokens are stamped with too small a line", "c05.scan (token-line)"),
 "C06-m1": ("C06", "the parser forgets the clause it was appending to when a nested block ends (needs >= 6 tokens: content after a block nested in a non-first clause)", "c06.sequences (tree), from the length-6 part of the exhaustive enumeration in thorough and from the random trees in quick"),
 "C06-m2": ("C06", "clause admission uses sort.SearchStrings(...) < len without comparing the found element: else admitted in capture/tablerow, elsif in capture/case/for, when in capture", "c06.sequences (accepted-ill-nested)"),
 "C07-m1": ("C07", "the tokenizer advances the line counter by the newlines in a token's Args instead of its whole source", "c07.locate"),
 "C07-m2": ("C07", "an object-parse memo keyed by the argument text caches the whole AST object including its location: a render error in an object textually identical to an earlier one reports the earlier line", "c07.locate after the layouts gained a never-executed decoy copy of the failing construct; missed before"),
 "C13-m1": ("C13", "trim tokens inside comment/raw become live trim nodes (same edit as C05-m1): an inner-side hyphen trims text outside the block", "c13.hyphens after inner-side hyphens of raw/comment were brought into the strong relation as no-ops; missed while they were excluded from it"),
 "C13-m2": ("C13", "trimWriter.Write returns early on an empty (fully trimmed) write without clearing the trim flag: the next write is trimmed too", "c13.hyphens"),
 "C19-m1": ("C19", "a process-wide regexp cache keyed by the concatenation of the four delimiters: two different quadruples with the same concatenation share a matcher", "c19.equivalence / c19.defaults-are-text (many engines per process)"),
 "C19-m2": ("C19", "hyphen detection refactored into a helper that is called with the object-right delimiter for tags: a tag's closing hyphen is looked for at the wrong offset when the two right delimiters differ in length", "c19.equivalence"),
 "C20-m1": ("C20", "writeObject keeps only the last element's write error when printing an array: an array with an empty tail as the last output swallows the failure", "c20.write-faults after programs gained array prints with nil/empty tails; missed before"),
 "C20-m2": ("C20", "RenderSequence flushes in a defer that keeps the 'primary' error: a flush failure is dropped while a break/continue pseudo-error unwinds and the loop then discards that", "c20.write-faults after programs gained endings in a loop whose last action is break/continue (and bare jumps); missed before"),
 "C02-m1": ("C02", "SortedMapKeys' comparator reads key ranks from a parallel slice that sort.Slice does not permute: maps mixing key classes (numbers and strings in a map[any]any) come out in an order that depends on Go's random MapKeys order", "c02.entry-points (the mixed-key map binding)"),
 "C02-m2": ("C02", "sort drops its defensive copy: a []any binding is sorted in place, so a second render with the same bindings value sees another order", "c02.entry-points after three renders were made to share one bindings value; missed while every render got fresh bindings (c03.history caught it from the start)"),
 "C04-m1": ("C04", "concat becomes append(a, b...): concurrent renders write into the spare capacity of a shared []any binding", "c04.concurrent (race report in the concat filter; shared bindings are given spare capacity)"),
 "C04-m2": ("C04", "Scan fills the defaults for empty delimiters into the engine's own Delims slice: concurrent first parses on an engine configured with Delims(\"\", ...) race", "c04.concurrent after cases gained Engine.Delims configurations and 'cold' engines whose first use is concurrent; missed before"),
 "C01-m3": ("C01", "truncate computes max(n - len(ellipsis), 0): for a length near the smallest int64 the subtraction wraps and the slice panics", "c01.matrix (first run)"),
 "C01-m4": ("C01", "Value.Int() accepts unsigned kinds via isIntKind and then calls reflect's Int(), which panics for them: a range bound held in a uint variable panics", "c01.matrix (first run)"),
 "C02-m3": ("C02", "cycle counters live in the compiled loop and are cleared only on the normal exit: a render that fails mid-loop changes what the next render of the same Template writes", "c02.entry-points after snippets with cycle + division by a bound value and the comparison of two FRender buffers were added; missed before"),
 "C02-m4": ("C02", "Template.Render returns buf.Bytes() of a buffer taken from a sync.Pool: a later render overwrites bytes the caller already holds", "c02.entry-points after []byte results were held and re-read after an unrelated render; missed before"),
 "C03-m3": ("C03", "ParseDate remembers in a package-level variable which layout matched last: a date string that two layouts accept is interpreted differently after an unrelated render", "c03.history after date templates and date strings were added; missed before"),
 "C03-m4": ("C03", "render.Render takes its trimWriter from a sync.Pool and does not reset the trim flag: a render ending in a right hyphen makes the next render lose its leading white space", "c03.history after templates were spelled with hyphens and white-space text; missed before"),
 "C04-m3": ("C04", "ParentTags caches its sorted list in the shared block syntax without synchronisation: only reached when a misplaced clause is parsed concurrently", "c04.concurrent after templates that do not parse were added to the workloads; missed before"),
 "C04-m4": ("C04", "the forloop record comes from a package-level sync.Pool and is recycled when the loop ends: a template that keeps it (assign f = forloop) races with other renders' loops", "c04.concurrent after snippets that keep the loop record were added; missed before"),
 "C05-m3": ("C05", "the trim writer classifies bytes with a Latin-1 table: text or a value ending in a byte 0x85/0xA0 (a continuation byte of e.g. a-grave) loses it next to a hyphen", "c13.hyphens after text and values ending in such characters were added (not a C05 check: needs a hyphen); missed before"),
 "C05-m4": ("C05", "same pooled-buffer aliasing as C02-m4", "c02.entry-points (see C02-m4); no C05 check observes it"),
 "C06-m3": ("C06", "the parser keeps the kind of the block just closed when it returns to top level: a stray end/clause tag matching it is admitted and Parse panics", "c06.sequences (first run)"),
 "C06-m4": ("C06", "the tag-name pattern becomes [\\w-]+: a trim hyphen glued to an argument-less tag name ({% endif-%}) is swallowed into the name", "c06.sequences after tags were also spelled {%-tag-%} and {%tag%}; missed before"),
 "C07-m3": ("C07", "capture wraps a body error with fmt.Errorf: the located error is no longer recognised and is re-located at the capture tag, and Cause is the wrapper", "c07.locate (first run)"),
 "C07-m4": ("C07", "ParseTemplateAndCache cleans the path before parsing: Path() differs from the path given when that is not clean (./a.html, a//b)", "c07.locate after ParseTemplateAndCache and unclean paths were added; missed before"),
 "C08-m3": ("C08", "trailing nil arguments are trimmed before the arity check: surplus arguments that evaluate to nil no longer make an error", "c08.unknown-or-excess after nil / undefined surplus arguments were added; missed before"),
 "C08-m4": ("C08", "a negative fractional float index is floored instead of truncated", "NOT DETECTED, deliberately: the statement describes integer indices and non-numeric indices; what a float index means is left open (the model answers Unspecified)"),
 "C09-m3": ("C09", "slices of the same Go type are compared with reflect.DeepEqual: a nil typed slice no longer equals an empty one", "c09.pair after []string(nil) and []string{} joined the universe; missed before"),
 "C09-m4": ("C09", "map contains converts the operand to the key type: {a:1} contains 97 (the code point of a)", "c09.pair after 97 joined the universe and the model was made to answer false for a non-string operand; missed before"),
 "C10-m3": ("C10", "case caches the value of each when expression at its first evaluation: a when value that changes between executions of the same case node is stale", "c10.programs (first run)"),
 "C10-m4": ("C10", "if selects the branch and renders it afterwards, losing the early return: later conditions are still evaluated", "c10.chain / c10.programs (first run)"),
 "C11-m3": ("C11", "cycle stores its counter modulo its own length: two cycle tags of one group with lists of different length step differently", "NOT DETECTED, deliberately: the statement says round-robin per loop and group and is silent on two tags of one group with different value lists (the model answers Unspecified; c01.matrix covers the panic variant of the same edit)"),
 "C11-m4": ("C11", "reversed reverses a []any binding in place: a later loop over the same array sees the wrong order", "c11.nesting (first run)"),
 "C12-m3": ("C12", "the loop reuses one forloop map for all iterations: assign f = forloop in one iteration reads later iterations' values", "c12.model after the generator learned to keep the loop record in a variable; missed before"),
 "C12-m4": ("C12", "capture renders into one scratch buffer per render: a capture nested in a capture resets the outer one", "c12.model / c12.capture-equivalence (first run)"),
 "C13-m3": ("C13", "pooled trimWriter keeps its trim flag (same edit as C03-m4)", "c13.hyphens (first run: 'not a deletion')"),
 "C13-m4": ("C13", "the parser merges a text token into the previous text node across a comment block: a hyphen then trims through the comment into non-adjacent text", "c13.hyphens (first run)"),
 "C14-m3": ("C14", "an included file is compiled with its own path: an include inside it resolves against its directory instead of the top template's", "c14.graph after files in sub-directories were allowed to include (read as: relative to the directory of the path the rendered template was parsed with, at every depth); not generated before"),
 "C14-m4": ("C14", "templates keep a copy of the engine configuration and ParseTemplateAndCache publishes a new cache map: a template parsed before a registration does not see it", "c14.graph after registrations made after parsing the includer were added; missed before"),
 "C15-m3": ("C15", "uniq gets a hash-set fast path keyed by width-normalised value: 1 and 1.0 are kept as distinct", "c15.apply after an alphabet with equal values of different numeric kinds was added; missed before"),
 "C15-m4": ("C15", "converting an ordered map to a slice drops entries whose value is nil", "c15.apply (first run: representation)"),
 "C16-m3": ("C16", "truncate's 'already fits' test compares with n - len(ellipsis)", "c16.apply (first run)"),
 "C16-m4": ("C16", "Convert-to-string lets unsigned integers through reflect's Convert: uint(65) becomes \"A\"", "c16.apply / c16.number-as-text after unsigned receivers and numeric arguments were added; missed before"),
 "C17-m3": ("C17", "plus/minus/times round their result to 15 significant decimal digits", "c17.apply (first run)"),
 "C17-m4": ("C17", "real division returns 0 for a zero receiver before it looks at the divisor: 0 | divided_by: 0.0 is no error", "c17.apply (first run)"),
 "C18-m3": ("C18", "writeObject's type switch runs before ToLiquid: a Drop yielding []byte inside an array prints as byte numbers", "c18.programs after an array of byte-slice / Drop elements that is printed as a whole was added; missed before"),
 "C18-m4": ("C18", "isIntKind narrowed to signed kinds and one call site missed: float vs unsigned comparisons are false", "c18.numeric-grid (first run)"),
 "C19-m3": ("C19", "Delims keeps the engine's current delimiter for an empty argument instead of the default: visible only after two Delims calls on one engine", "c19.equivalence after engines configured twice were added; missed before"),
 "C19-m4": ("C19", "QuoteMeta hoisted out of the loop but sliced with unquoted indexes: the exclusion pattern is wrong for multi-character closing tag delimiters with special characters", "c19.equivalence (first run)"),
 "C20-m3": ("C20", "a failed end-of-body flush is wrapped with the body's last node, which may be sourceless: panic", "c20.write-faults (first run)"),
 "C20-m4": ("C20", "TrimLeft replaces the writer's error by io.ErrShortWrite", "c20.write-faults (first run: failure-not-carried)"),
 "C01-m5": ("C01", "Equal decides comparability from the type alone: two structs whose interface-typed field holds a map are compared with == and panic", "c01.matrix after the universe gained a struct with an interface field holding a map/slice; missed before"),
 "C01-m6": ("C01", "a process-wide cache of token matchers in a plain map: two goroutines parsing for the first time with a delimiter set the process has not seen kill the process (concurrent map writes)", "c04.concurrent after engines got per-case delimiters and cold engines ran before the reference; c01 itself is sequential and cannot see it"),
 "C02-m5": ("C02", "join resolves drops but no longer dereferences pointer elements: addresses in the output", "c02.entry-points"),
 "C02-m6": ("C02", "the command-line tool passes the rendered output to Fprintf as the format: a % in the output is mangled", "c02.command-line after values and text with % were added; missed before"),
 "C03-m5": ("C03", "the struct field cache is keyed by Type.String(): two struct types with the same printed name share field tables, so a lookup depends on which type was rendered first", "c03.history after environments got two same-named struct types with crosswise liquid tags and templates with a fixed outcome; missed before"),
 "C03-m6": ("C03", "a drop stored as a map value is resolved once and written back into the caller's map", "c03.history (bindings-modified) after environments got drops as map values; missed before"),
 "C04-m5": ("C04", "ExpandTagArg compiles the tag argument lazily into a field of the shared TagNode: unsynchronised write on the first concurrent renders", "c04.concurrent after engines got a custom tag using ExpandTagArg and the templates the goroutines render were no longer rendered beforehand; missed before"),
 "C04-m6": ("C04", "the copy of the bindings moved into Template.Render: FRender and ParseAndFRender hand the caller's map to assign/capture", "c04.concurrent (runtime: concurrent map iteration and write) and c03.history (bindings-modified) after both used every entry point; missed before"),
 "C05-m5": ("C05", "the source []byte is turned into a string without copying: the parsed template changes when the caller reuses the buffer", "every check that renders through the shared helper, which now overwrites the buffer after parsing (first: c05.value-beside-hyphen); missed before"),
 "C05-m6": ("C05", "trimWriter.Write returns early on an empty write before flushing: text separated from a left-trim by blank text that was trimmed away entirely loses its trailing white space", "c13.hyphens, and c05.value-beside-hyphen after the text-beyond-facing-hyphens shapes were added; c05 missed it before"),
 "C06-m5": ("C06", "comment and raw modes merged: tokens skipped in a later comment are appended to an earlier raw node", "c06.sequences"),
 "C06-m6": ("C06", "Compile returns a text node when the source contains neither {{ nor {%, whatever the engine's delimiters", "c19.equivalence; c06.sequences after it also ran on an engine with its own delimiters; c06 missed it before"),
 "C07-m5": ("C07", "end-of-input checks reordered: an unterminated comment/raw inside an open block is reported at the block", "c07.locate"),
 "C07-m6": ("C07", "ParseDate returns a plain error instead of a TypeError: an unparsable date string given to date panics", "c07.locate after conversion-failure kinds (date, slice, assign, if) were added; missed before"),
 "C08-m5": ("C08", "a string-valued bracket index goes through the property path: arr[\"first\"], arr[\"size\"] answer", "c08.index-grid / c08.expr"),
 "C08-m6": ("C08", "the object pattern no longer spans lines", "c08.spacing / c12.model"),
 "C09-m5": ("C09", "Equal compares floats after rounding both to float32 when either is a float32", "c09.pair after the universe gained float32(2^24) / 2^24+1 / float32(0.1) / 0.1; missed before"),
 "C09-m6": ("C09", "the empty string interned as a plain wrapper: contains on it always false", "c09.pair"),
 "C10-m5": ("C10", "if/elsif treat a nil slice or nil map as falsy, unless does not", "c10.chain / c10.duality"),
 "C10-m6": ("C10", "the word or inside a quoted when value is rewritten to a comma before parsing", "c10.case after when values were also written as literals incl. strings containing or/and/commas; missed before"),
 "C11-m5": ("C11", "a typed nil slice/map is 'not a collection': no else branch", "c11.grid"),
 "C11-m6": ("C11", "continue inside tablerow leaves the cell and row unclosed", "c11.grid"),
 "C12-m5": ("C12", "a capture body runs against a copy of the variables: assigns inside capture are lost", "c12.model"),
 "C12-m6": ("C12", "concat becomes append(a, b...): a variable assigned from base | concat: p changes when base is concatenated again", "c15.apply (input-modified); c12.model after the twin-concat shape was added; c12 missed it before"),
 "C13-m5": ("C13", "left trim classifies bytes instead of runes as white space: the last byte of à, Å is cut", "c13.hyphens"),
 "C13-m6": ("C13", "writes of 4096 bytes or more bypass the trim buffer: trailing white space of a long text before a left-trim survives", "c13.hyphens after text chunks of 4 KiB..70 KiB were added; missed before"),
 "C14-m5": ("C14", "the include name is cleaned as an absolute path first: a leading ../ is dropped", "c14.graph after targets above the top template's directory were added; missed before"),
 "C14-m6": ("C14", "compiled includes are cached per engine with the first includer's location: a second top-level template in another directory resolves nested includes against the first one's directory", "c14.graph after a second top-level template on the same engine was added; missed before"),
 "C15-m5": ("C15", "join writes a separator before the first printed element when the array starts with nil", "c15.apply"),
 "C15-m6": ("C15", "join treats an explicitly empty separator as omitted", "c15.apply"),
 "C16-m5": ("C16", "url_decode returns the input unchanged when it has no %: + is not decoded", "c16.apply"),
 "C16-m6": ("C16", "replace_first / remove_first use i > 0 as the found test: a match at position 0 is ignored", "c16.apply"),
 "C17-m5": ("C17", "filter arguments are collected in a scratch slice shared by the filters of one expression: a parenthesised filtered argument overwrites the receiver", "c17.apply after a quarter of the arguments were written as parenthesised filtered expressions; missed before"),
 "C17-m6": ("C17", "round caches the power of ten and inverts it in place for negative places: every later round with that many places is wrong", "c17.apply after negative places were exercised (not judged); missed before"),
 "C18-m5": ("C18", "sort by property asserts map[string]any: records that are typed maps are left unsorted", "c18.programs after integer-only records, a sort-by-key expression and frequent typed containers were added; missed before"),
 "C18-m6": ("C18", "ValueOf follows a pointer through a kind-only helper and skips the type switch on the pointee (drops, times behind pointers)", "c18.filters / c18.programs"),
 "C19-m5": ("C19", "the empty-delimiter substitution copies the original slice each time: only the last empty position is defaulted", "c19.equivalence"),
 "C19-m6": ("C19", "RenderFile returns a file without {{ and {% as it stands, whatever the engine's delimiters", "c19.equivalence after a fifth of the cases went through ParseTemplateAndCache + include; missed before"),
 "C20-m5": ("C20", "Flush retries after a short write and forgets the error when the retry succeeds: a writer that fails once is reported as success", "c20.write-faults after writers that fail only once were added; missed before"),
 "C20-m6": ("C20", "WrapError re-wraps a location-less inner error by its message only: Cause() is nil for failures surfacing at flushes, trim markers and raw text inside a block on line >= 2", "c20.write-faults after the oracle required the cause chain to reach the writer's error value (it accepted the message alone before); missed before"),
 "C01-m7": ("C01", "a numeric string too large for the target type keeps strconv's range error instead of a TypeError: {{ \"1e999\" | plus: 1 }} or truncate: \"99999999999999999999\" panics", "c01.matrix after the universe gained oversized numeric strings; missed before"),
 "C01-m8": ("C01", "slice tests the start against the byte length before converting to runes: a non-ASCII receiver with a start between the character count and the byte count panics", "c01.matrix (first run)"),
 "C02-m7": ("C02", "ParseAndRender / ParseAndRenderString return a source without a { verbatim, whatever the engine's delimiters: entry points disagree on an engine with brace-free delimiters", "c02.entry-points after a fifth of the cases ran on engines with delimiters of their own (c19.equivalence saw it as it stood); missed before"),
 "C02-m8": ("C02", "a map[any]any index that misses falls back to the first key that is Liquid-equal, scanning unsorted MapKeys: {int64(1), float64(1)} indexed with 1 answers at random", "c02.entry-points after the bindings gained a map with Liquid-equal keys of different Go types; missed before"),
 "C03-m7": ("C03", "RenderFile keeps the compiled include target on the TagNode without a key: later renders (and later iterations) include what the first one named", "c03.history after templates gained includes whose name comes from the bindings; missed before"),
 "C03-m8": ("C03", "SortedMapKeys' last tie-break prints keys without their type: 1, 1.0 and int8(1) tie and come out in MapKeys order", "c03.history after environments gained a map with Liquid-equal keys; missed before"),
 "C04-m7": ("C04", "ParseDate moves the layout that matched to the front of the package-level list", "c04.concurrent (first run)"),
 "C04-m8": ("C04", "the cycle position map is allocated at compile time and emptied on loop entry", "c04.concurrent (first run)"),
 "C05-m7": ("C05", "Compile strips a leading byte-order mark", "c05.scan after the fragments gained BOM, other line ends, invisible and replacement characters; missed before"),
 "C05-m8": ("C05", "an object whose value is nil returns before resetting the trim flag and flushing: a hyphen facing that object trims text on its other side", "NOT DETECTED, deliberately: every hyphen involved faces an object, not literal text; C13 fixes the output exactly only when hyphens face literal text (and the pinned tree itself trims across a tag in that situation); the modulo-white-space relations hold"),
 "C06-m7": ("C06", "the tag-argument pattern becomes a lazy .+? that stops at a newline: a tag whose arguments span lines is text", "c06.sequences after tags were also spelled with arguments spanning lines; missed before"),
 "C06-m8": ("C06", "trim-token cases hoisted above the comment/raw modes (the edit of C05-m1 / C13-m1 again)", "c13.hyphens and c05.raw-comment; no c06 check observes it (acceptance and tree shape are unchanged)"),
 "C07-m7": ("C07", "break/continue handling tests the error's cause and loses the default branch: a cause-less error raised inside a loop body is swallowed", "c07.locate (first run)"),
 "C07-m8": ("C07", "values.Call recovers error-valued panics: the conversion error of a lazily converted optional argument arrives wrapped in a FilterError", "c07.locate after kinds with lazily converted arguments were added and the oracle required Cause() itself to be the TypeError; missed before"),
 "C08-m7": ("C08", "a negative index is clamped to 0 instead of checked: arr[-4] on three elements is the first element", "c08.index-grid (first run)"),
 "C08-m8": ("C08", "integer literals are parsed with base 0: 010 is 8, 08 is a syntax error", "c08.literals after every n < 130 was written with leading zeros; missed before (007 reads the same in both bases)"),
 "C09-m7": ("C09", ">= and <= become not-less of the flipped pair: true for unordered pairs (nil, unlike kinds, arrays)", "c09.pair (first run)"),
 "C09-m8": ("C09", "Equal asks the type, not the value, whether == is safe: two structs with a slice behind an interface field panic", "c01.matrix; structs are outside c09's universe (the statement lists nil, booleans, numbers, strings, arrays, maps and Drops)"),
 "C10-m7": ("C10", "case drops clauses with an empty body at compile time: a matching empty when no longer ends the search", "c10.programs (first run)"),
 "C10-m8": ("C10", "case compares with Go == first: two containers of the same type panic", "c10.case (first run)"),
 "C11-m7": ("C11", "the else branch is decided by a count of iterations that ran to their end: a loop whose iterations all break/continue renders else too", "c11.grid (first run)"),
 "C11-m8": ("C11", "map iteration hands out one shared pair buffer: a pair kept in a variable shows a later entry", "c11.map after the first and the previous pair were kept in variables and read later; missed before"),
 "C12-m7": ("C12", "the restore of the loop variable is skipped when the loop is left by break", "c12.model (first run)"),
 "C12-m8": ("C12", "Context.Get resolves drops: the loop saves a snapshot of a shadowed Drop and writes that back", "c12.shadowed-live-value (added: a Drop over a counter that a filter advances, shadowed by a loop); missed before"),
 "C13-m7": ("C13", "a tag's left hyphen is looked for at the object delimiter's offset: wrong when the two left delimiters differ in length", "c19.equivalence as it stood; c13.hyphens after a fifth of the programs ran on engines with delimiters of unequal lengths; c13 missed it before"),
 "C13-m8": ("C13", "break/continue reject arguments, and the tag pattern captures the hyphen of {% break -%} as an argument", "c13.hyphens (first run)"),
 "C14-m7": ("C14", "the include streams into the includer's trim writer: hyphens at the edges of the included file trim the includer's white space", "c14.graph after files could begin/end with a hyphenated tag and the expectation rendered the included content on its own (capture) instead of splicing source; missed before"),
 "C14-m8": ("C14", "RenderFile's pooled buffer is not reset on the error path", "c14.graph (first run)"),
 "C15-m7": ("C15", "sort by key treats a zero-valued property of a typed map as lacking the key", "c15.apply after a third of the record sets became map[string]int with zero and negative values (c18.programs saw it as it stood); missed before"),
 "C15-m8": ("C15", "reverse uses slices.Reverse on the receiver", "c15.apply (first run)"),
 "C16-m7": ("C16", "split treats any white-space-only separator like the single space", "c16.split-join after newline, tab, two spaces and NBSP became separators; missed before"),
 "C16-m8": ("C16", "escape_once unescapes with a replacer that lacks &#34;", "c16.apply (first run)"),
 "C17-m7": ("C17", "modulo computed as a - b*trunc(a/b)", "c17.apply (first run)"),
 "C17-m8": ("C17", "ceil and floor return floats", "c17.apply (first run)"),
 "C18-m7": ("C18", "compareInts folds the mixed-sign branches and keeps a wrong early return", "c18.numeric-grid (first run)"),
 "C18-m8": ("C18", "Convert lets a []int32 (a rune slice) convert to a string", "c18.filters after arrays were also given as typed slices of every integer width in every position; missed before"),
 "C19-m7": ("C19", "the object half of the token pattern is used as a format string: a % in an object delimiter garbles it", "c19.equivalence (first run)"),
 "C19-m8": ("C19", "delimiter lengths are taken before the defaults are filled in: no hyphen is seen next to a defaulted delimiter", "c19.equivalence (first run)"),
 "C20-m7": ("C20", "tablerow still closes the cell after a failed body", "c20.write-faults (first run: writes-after-failure)"),
 "C20-m8": ("C20", "error messages abbreviate a long source text at the last blank within 120 bytes: none there panics", "c20.write-faults after long text chunks without leading white space were added; missed before"),
 "C17-m1": ("C17", "round gains a fast path math.Floor(n+0.5) for places == 0: odd integers between 2^52 and 2^53 round to their even neighbour", "c17.apply"),
 "C17-m2": ("C17", "ValueOf interns float 0.0/1.0 as int 0/1: divided_by with a float divisor of exactly 1.0 does integer division", "c17.apply"),
}
def results():
    """seeded/RESULTS.tsv (written by driver/seedall.sh): id -> list of (check run, exit code, sub-check, signature)"""
    out = {}
    p = os.path.join(ROOT, "seeded", "RESULTS.tsv")
    if os.path.exists(p):
        for line in open(p):
            f = line.rstrip("\n").split("\t")
            if len(f) >= 5:
                out.setdefault(f[0], []).append((f[1], f[2], f[3], f[4]))
    return out


def table():
    """The markdown table of DESIGN.md section 10."""
    res = results()
    rows = ["| seeded change | what it breaks / what it needs | detected by | last regression run (quick, seed 1) |", "|---|---|---|---|"]
    for k in sorted(T):
        prop, needs, caught = T[k]
        last = "; ".join("%s: %s" % (r[0], ("`%s`" % r[3]) if r[1] == "1" else ("silent" if r[1] == "0" else "exit " + r[1])) for r in res.get(k, [])) or "-"
        rows.append("| %s | %s | %s | %s |" % (k, needs.replace("|", "\\|"), caught.replace("|", "\\|"), last.replace("|", "\\|")))
    return "\n".join(rows)


if __name__ == "__main__":
    import sys
    if sys.argv[1:] == ["table"]:
        print(table())
        sys.exit(0)
    res = results()
    for k, (prop, needs, caught) in T.items():
        d = os.path.join(ROOT, "seeded", k)
        if not os.path.isdir(d):
            continue
        meta = {
            "id": k, "property": prop, "breaks": needs,
            "needs_to_manifest": open(os.path.join(d, "NOTES.md")).read()[:1200] if os.path.exists(os.path.join(d, "NOTES.md")) else "",
            "confirmed": "driver/seedverify.sh <dir>: in a scratch worktree of /repo HEAD the demo passes on the clean tree; with patch.diff applied `go build ./...` and the unedited suite (`go test -vet=off -count=1 ./...`) pass and the demo fails",
            "run_against_checks": "driver/seedtest.sh <dir>/patch.diff %s  (git apply to /repo, ./run %s quick, git checkout -- .)" % (prop, prop),
            "caught_by": caught,
            "last_regression_run": [{"check": r[0], "exit": r[1], "sub_check": r[2], "signature": r[3]} for r in res.get(k, [])],
        }
        json.dump(meta, open(os.path.join(d, "meta.json"), "w"), indent=1)
        print("wrote", k)
