#!/usr/bin/env python3
"""Writes seeded/<id>/meta.json from the table below (what each seeded change breaks, what it needs, what was run)."""
import json, os
ROOT = os.path.dirname(os.path.dirname(os.path.abspath(__file__)))
T = {
 "C01-m1": ("C01", "truncatewords trims with an ASCII-only whitespace set while it searches with unicode.IsSpace: a string containing a non-ASCII space (NBSP, form feed, ...) together with a huge word count never returns", "c01.matrix (sig hang/slow) after the universe gained strings with Unicode white space; missed before that"),
 "C01-m2": ("C01", "cycle stores the position modulo its own length in the per-group counter: two cycle tags of one group with different lengths in one loop panic (index out of range)", "c01.matrix form cycle2 (all ordered pairs of cycle argument lists in one loop), added after the first run missed it"),
 "C03-m1": ("C03", "cycle counters live in the compiled loop tag and are cleared after the loop, except on the early error return: a render that fails mid-loop leaves cycle positions behind for the next render of the same Template", "c03.history"),
 "C03-m2": ("C03", "compact filters in place (result = a[:0]): applied directly to a []any binding with a nil followed by a non-nil element it overwrites the caller's slice", "c03.history (fingerprint) and c15.apply (input-modified)"),
 "C08-m1": ("C08", "mapValue.PropertyValue reuses IndexValue and treats the interned nil as 'key absent': a map whose size key is bound to nil answers a.size with the entry count", "c08.expr (nested bindings carry nil-valued size keys)"),
 "C08-m2": ("C08", "the strict-variables nil test moved into the recursive writeObject: in strict mode an array with a nil element fails although its final value is not nil", "c08.expr strict probe (sig c08:strict-rejects-value), added after the first run missed it"),
 "C09-m1": ("C09", "mixed-signedness integers are compared through float64: int64(MaxInt64) == uint64(2^63)", "c09.pair"),
 "C09-m2": ("C09", "ToLiquid dropped from Equal/Less: Drops nested in arrays are no longer resolved in element-wise equality and contains", "c09.pair"),
 "C10-m1": ("C10", "case skips values.Equal when the when value's Go type differs from the subject's: case 1 / when 1.0 (or int64 vs int, uint8 vs int) misses", "c10.case"),
 "C10-m2": ("C10", "the parser no longer restores the clause's append point after a nested block ends: content after a block nested in else/elsif/when moves to the head branch", "c10.programs (also c06.tree)"),
 "C11-m1": ("C11", "forloop and the loop variable are restored after the loop by straight-line code that a break skips", "c11.grid (sig c11:not-restored)"),
 "C11-m2": ("C11", "offset and limit collapsed into one window wrapper that loses the clamp: offset beyond the length gives a negative length and the else branch is skipped", "c11.grid"),
 "C12-m1": ("C12", "the pre-loop forloop is only remembered when it is a loop record: a template-assigned forloop is lost after a loop", "c12.model, after the generator learned to assign forloop; missed before"),
 "C12-m2": ("C12", "capture takes its variable name with ^[A-Za-z_]\\w*: names with a hyphen or a trailing ? bind a truncated name", "c12.model, after the generator learned hyphenated / ?-suffixed names; missed before"),
 "C14-m1": ("C14", "RenderFile treats an empty read as 'not on disk': a zero-byte file no longer takes precedence over cached source", "c14.graph"),
 "C14-m2": ("C14", "include takes a 'plain quoted file name' fast path when the argument starts and ends with the same quote, swallowing filtered expressions such as \"card\" | append: \".html\"", "c14.graph"),
 "C15-m1": ("C15", "concat becomes append(a, b...): with a []any receiver that has spare capacity the second concat of the same receiver overwrites the first result and the caller's backing array", "c15.apply (input-modified: the fingerprint now covers a slice's spare capacity; bindings get random capacity; the filter is applied twice) - missed before those three additions"),
 "C15-m2": ("C15", "sort by key uses the shared property lookup, so for the key names size/first/last an entry lacking the key is given its entry count instead of sorting first", "c15.apply after records got the key names size/first/last and extra entries; missed before"),
 "C16-m1": ("C16", "slice normalises a negative start with the byte length instead of the character count: \"aé\" | slice: -1", "c16.apply"),
 "C16-m2": ("C16", "truncatewords' 'only white space follows' guard simplified to end == len(s): a string of exactly n words that ends in white space gets the ellipsis", "c16.apply"),
 "C18-m1": ("C18", "Equal takes a same-type shortcut for comparable types: two [N]any arrays are compared with Go ==, so a Drop / int8 / float element no longer equals the plain value", "c18.equality (added after the first run missed it)"),
 "C18-m2": ("C18", "uniq filters in place (result = a[:0]) and overwrites a bound []any", "c18.programs (also c15.apply input-modified, c03.history)"),
 "C05-m1": ("C05", "trim-token cases moved ahead of the comment/raw mode checks in the parser: hyphenated tag-like text inside a raw or comment body becomes live trim nodes and eats white space of the body", "c05.raw-comment"),
 "C05-m2": ("C05", "the tokenizer counts newlines only in a token's arguments, not in the padding next to the delimiters: later tokens are stamped with too small a line", "c05.scan (token-line)"),
 "C06-m1": ("C06", "the parser forgets the clause it was appending to when a nested block ends (needs >= 6 tokens: content after a block nested in a non-first clause)", "c06.sequences (tree), from the length-6 part of the exhaustive enumeration in thorough and from the random trees in quick"),
 "C06-m2": ("C06", "clause admission uses sort.SearchStrings(...) < len without comparing the found element: else admitted in capture/tablerow, elsif in capture/case/for, when in capture", "c06.sequences (accepted-ill-nested)"),
 "C07-m1": ("C07", "the tokenizer advances the line counter by the newlines in a token's Args instead of its whole source", "c07.locate"),
 "C07-m2": ("C07", "an object-parse memo keyed by the argument text caches the whole AST object including its location: a render error in an object textually identical to an earlier one reports the earlier line", "c07.locate after the layouts gained a never-executed decoy copy of the failing construct; missed before"),
 "C13-m1": ("C13", "trim tokens inside comment/raw become live trim nodes (same edit as C05-m1): an inner-side hyphen trims text outside the block", "c13.hyphens after inner-side hyphens of raw/comment were brought into the strong relation as no-ops; missed while they were excluded from it"),
 "C13-m2": ("C13", "trimWriter.Write returns early on an empty (fully trimmed) write without clearing the trim flag: the next write is trimmed too", "c13.hyphens"),
 "C19-m1": ("C19", "a process-wide regexp cache keyed by the concatenation of the four delimiters: two different quadruples with the same concatenation share a matcher", "c19.equivalence / c19.defaults-are-text (many engines per process)"),
 "C19-m2": ("C19", "hyphen detection refactored into a helper that is called with the object-right delimiter for tags: a tag's closing hyphen is looked for at the wrong offset when the two right delimiters differ in length", "c19.equivalence"),
 "C20-m1": ("C20", "writeObject keeps only the last element's write error when printing an array: an array with an empty tail as the last output swallows the failure", "c20.write-faults after programs gained array prints with nil/empty tails; missed before"),
 "C20-m2": ("C20", "RenderSequence flushes in a defer that keeps the 'primary' error: a flush failure is dropped while a break/continue pseudo-error unwinds and the loop then discards that", "c20.write-faults after programs gained endings in a loop whose last action is break/continue (and bare jumps); missed before"),
 "C02-m1": ("C02", "SortedMapKeys' comparator reads key ranks from a parallel slice that sort.Slice does not permute: maps mixing key classes (numbers and strings in a map[any]any) come out in an order that depends on Go's random MapKeys order", "c02.entry-points (the mixed-key map binding)"),
 "C02-m2": ("C02", "sort drops its defensive copy: a []any binding is sorted in place, so a second render with the same bindings value sees another order", "c02.entry-points after three renders were made to share one bindings value; missed while every render got fresh bindings (c03.history caught it from the start)"),
 "C04-m1": ("C04", "concat becomes append(a, b...): concurrent renders write into the spare capacity of a shared []any binding", "c04.concurrent (race report in the concat filter; shared bindings are given spare capacity)"),
 "C04-m2": ("C04", "Scan fills the defaults for empty delimiters into the engine's own Delims slice: concurrent first parses on an engine configured with Delims(\"\", ...) race", "c04.concurrent after cases gained Engine.Delims configurations and 'cold' engines whose first use is concurrent; missed before"),
 "C17-m1": ("C17", "round gains a fast path math.Floor(n+0.5) for places == 0: odd integers between 2^52 and 2^53 round to their even neighbour", "c17.apply"),
 "C17-m2": ("C17", "ValueOf interns float 0.0/1.0 as int 0/1: divided_by with a float divisor of exactly 1.0 does integer division", "c17.apply"),
}
for k, (prop, needs, caught) in T.items():
    d = os.path.join(ROOT, "seeded", k)
    if not os.path.isdir(d):
        continue
    meta = {
        "id": k, "property": prop, "breaks": needs,
        "needs_to_manifest": open(os.path.join(d, "NOTES.md")).read()[:1200] if os.path.exists(os.path.join(d, "NOTES.md")) else "",
        "confirmed": "driver/seedverify.sh <dir>: in a scratch worktree of /repo HEAD the demo passes on the clean tree; with patch.diff applied `go build ./...` and the unedited suite (`go test -vet=off -count=1 ./...`) pass and the demo fails",
        "run_against_checks": "driver/seedtest.sh <dir>/patch.diff %s  (git apply to /repo, ./run %s quick, git checkout -- .)" % (prop, prop),
        "caught_by": caught,
    }
    json.dump(meta, open(os.path.join(d, "meta.json"), "w"), indent=1)
    print("wrote", k)
