#!/bin/bash
# seednormalise.sh — re-make every stored patch that a plain `git apply` refuses on /repo HEAD
# (3-way merge in a scratch worktree, then `git diff`), so that seedpar.sh / seedtest.sh can apply it.
wt=/tmp/norm-wt
git -C /repo worktree add -q --detach $wt HEAD || exit 2
for id in $(ls /verif/seeded | grep -- "-m"); do
  p=/verif/seeded/$id/patch.diff
  if git -C $wt apply --check $p 2>/dev/null; then continue; fi
  if git -C $wt apply --3way $p >/dev/null 2>&1; then
    git -C $wt reset -q; git -C $wt diff > $p; echo "$id: re-made (3-way)"
  else
    echo "$id: STILL FAILS"
  fi
  git -C $wt reset -q --hard; git -C $wt clean -fdq
done
git -C /repo worktree remove --force $wt
git -C /repo worktree prune
