#!/bin/bash
# seedone.sh <seed id> <Cxx> [tier] — run one check against one stored seeded change in a scratch worktree (VERIF_REPO); /repo is not touched
id=$1; p=$2; tier=${3:-quick}
wt=/tmp/so-$id-$p
git -C /repo worktree add -q --detach $wt HEAD || exit 2
if git -C $wt apply /verif/seeded/$id/patch.diff; then
  (cd /verif && VERIF_REPO=$wt ./run $p $tier 2>&1) | grep -v '^  c[0-9][0-9]\.\|^     \|^NOTE\|^built\|^KNOWN' | cut -c1-500 | head -${SEEDLINES:-6}
else echo "patch does not apply"; fi
git -C /repo worktree remove --force $wt
