#!/bin/bash
# seedpar.sh [-j N] [ids…] — like seedall.sh, but every seeded change is applied to its own scratch
# worktree of /repo HEAD (VERIF_REPO, a development aid of the driver) so that several run at once and
# /repo itself is left alone. Appends to seeded/RESULTS.tsv (truncates it when run without ids).
cd /verif
J=3; if [ "$1" = "-j" ]; then J=$2; shift 2; fi
declare -A EXTRA=( [C12-m15]=C14 [C12-m14]=C14 [C05-m13]=C06 [C08-m14]=C17 [C11-m14]=C01 [C02-m5]=C18 [C12-m11]=C14 [C01-m6]=C04 [C06-m6]=C19 [C12-m6]=C15 [C05-m6]=C13 [C04-m6]=C03 [C10-m2]=C06 [C18-m2]=C15 [C03-m2]=C15 [C05-m3]=C13 [C05-m4]=C02 [C06-m8]=C13 [C09-m8]=C01 [C13-m7]=C19 [C15-m7]=C18 [C02-m7]=C19 [C02-m9]=C19 [C05-m10]=C06 [C05-m1]=C13 )
ids=${@:-$(ls seeded | grep -- '-m')}
out=seeded/RESULTS.tsv
[ $# -eq 0 ] && : > $out
one() {
  id=$1; prop=${id%%-*}
  wt=/tmp/sw-$id
  git -C /repo worktree add -q --detach $wt HEAD || return
  if ! git -C $wt apply /verif/seeded/$id/patch.diff 2>/tmp/sw-$id.err; then
    printf '%s\t%s\t%s\t%s\t%s\n' "$id" "$prop" "apply-failed" "-" "-" >> $out
  else
    for p in $prop ${EXTRA[$id]:-}; do
      log=$(VERIF_REPO=$wt ./run $p quick 2>&1); rc=$?
      sig=$(echo "$log" | sed -n 's/^  check=\([^ ]*\) sig=\(.*\)$/\1\t\2/p' | head -1 | cut -c1-160)
      printf '%s\t%s\t%s\t%s\n' "$id" "$p" "$rc" "${sig:--	-}" >> $out
    done
  fi
  git -C /repo worktree remove --force $wt; rm -f /tmp/sw-$id.err
}
n=0
for id in $ids; do
  one $id &
  n=$((n+1))
  if [ $((n % J)) -eq 0 ]; then wait; fi
done
wait
git -C /repo worktree prune
sort -o $out $out
echo "seedpar done: $(wc -l < $out) rows, $(awk -F'\t' '$3!="1"' $out | wc -l) not detected"
