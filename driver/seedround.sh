#!/bin/bash
# seedround.sh <src-prefix e.g. /tmp/seed2-> <wt-prefix e.g. /tmp/wt2-> <first index e.g. 3> <ids...>
# For every id: verify m1/m2 of the source dir in a scratch worktree, store them as seeded/<id>-m<first>/m<first+1>,
# run the property's quick check against each, remove the agent's worktree.
src=$1; wt=$2; first=$3; shift 3
cd "$(dirname "$(readlink -f "$0")")/.."
for id in "$@"; do
  n=$first
  for m in m1 m2; do
    d=$src$id/$m
    if [ ! -f $d/patch.diff ] || [ ! -f $d/demo_test.go ]; then echo "$id-$m: no deliverable"; n=$((n+1)); continue; fi
    sub=.
    for cand in parser render tags filters values expressions; do
      if head -12 $d/demo_test.go | grep -qi "package $cand\b\|/$cand/\| $cand/ \|in $cand\b"; then grep -q "^package $cand" $d/demo_test.go && sub=$cand; fi
    done
    r=$(driver/seedverify.sh $d $sub 2>&1 | tail -1)
    name=$id-m$n
    if echo "$r" | grep -q "SEED CONFIRMED"; then
      mkdir -p seeded/$name; cp $d/patch.diff $d/demo_test.go seeded/$name/; cp $d/NOTES.md seeded/$name/ 2>/dev/null
      res=$(SEEDLINES=60 driver/seedtest.sh $(pwd)/seeded/$name/patch.diff $id 2>&1 | grep "seedtest\|sig=" | cut -c1-160 | tr '\n' ' ')
      echo "$name [$sub] CONFIRMED :: $res"
    else
      echo "$name [$sub] NOT CONFIRMED: $r"
    fi
    n=$((n+1))
  done
  git -C /repo worktree remove --force $wt$id 2>/dev/null
done
git -C /repo worktree prune
