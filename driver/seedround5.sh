#!/bin/bash
# seedround5.sh <src-prefix> <first index> <base rev of /repo> <baseline /verif worktree> <ids...>
# Like seedround.sh, but the changes are confirmed and first tested against the /repo revision they were written for
# (SEED_BASE) and against a given (older) copy of /verif, each in scratch worktrees; /repo itself is not touched.
src=$1; first=$2; base=$3; vbase=$4; shift 4
cd /verif
for id in "$@"; do
  n=$first
  for m in m1 m2; do
    d=$src$id/$m; name=$id-m$n; n=$((n+1))
    if [ ! -f $d/patch.diff ] || [ ! -f $d/demo_test.go ]; then echo "$name: no deliverable"; continue; fi
    pkg=$(grep -m1 '^package ' $d/demo_test.go | awk '{print $2}')
    case $pkg in liquid|liquid_test) sub=. ;; main) sub=cmd/liquid ;; *) sub=${pkg%_test} ;; esac
    r=$(SEED_BASE=$base driver/seedverify.sh $d $sub 2>&1 | tail -1)
    if echo "$r" | grep -q "SEED CONFIRMED"; then
      mkdir -p seeded/$name; cp $d/patch.diff $d/demo_test.go seeded/$name/; cp $d/NOTES.md seeded/$name/ 2>/dev/null
      wt=/tmp/s5-$name; git -C /repo worktree add -q --detach $wt $base && git -C $wt apply /verif/seeded/$name/patch.diff
      res=$( (cd $vbase && VERIF_REPO=$wt ./run $id quick 2>&1) | grep "^VIOLATION\|sig=\|INCONCLUSIVE" | cut -c1-140 | head -3 | tr '\n' ' ')
      git -C /repo worktree remove --force $wt
      echo "$name [$sub] CONFIRMED :: ${res:-not detected}"
    else
      echo "$name [$sub] NOT CONFIRMED: $r"
    fi
  done
done
git -C /repo worktree prune
