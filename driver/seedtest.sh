#!/bin/bash
# seedtest.sh <patch.diff> <Cxx> [tier]  — apply a seeded change to /repo, run one check, undo the change.
set -u
patch=$1; prop=$2; tier=${3:-quick}
cd /repo || exit 2
if ! git diff --quiet; then echo "/repo has uncommitted changes"; exit 2; fi
if ! git apply "$patch" 2>/tmp/seedtest.err; then git reset -q; git checkout -- .; if ! git apply --3way "$patch" 2>>/tmp/seedtest.err; then echo "patch does not apply:"; cat /tmp/seedtest.err; git reset -q; git checkout -- . ; exit 2; fi; fi
git reset -q 2>/dev/null
( cd ${VERIF_DIR:-/verif} && ./run "$prop" "$tier" ) 2>&1 | cut -c1-700 | grep -v '^  c[0-9]' | head -${SEEDLINES:-12}
rc=${PIPESTATUS[0]}
git checkout -- . ; git clean -fdq
echo "seedtest $prop $(basename $(dirname $patch)): exit=$rc"
