#!/bin/bash
# seedverify.sh <seed dir with patch.diff and demo_test.go> [subdir for the demo, default .]
# Confirms in a scratch worktree: demo passes on the clean tree; with the patch the full suite passes and the demo fails.
set -u
seed=$(readlink -f $1); sub=${2:-.}
export GOFLAGS=-mod=mod GOPROXY=off GOSUMDB=off GOTOOLCHAIN=local
wt=/tmp/wt-verify-$$
git -C /repo worktree add --detach -q $wt ${SEED_BASE:-HEAD} || exit 2
trap 'git -C /repo worktree remove --force $wt; git -C /repo worktree prune' EXIT
cd $wt
cp $seed/demo_test.go $sub/zz_seed_demo_test.go
if go test -vet=off -count=1 -run . ./$sub >/tmp/sv-clean.log 2>&1; then echo "clean tree: demo PASSES (ok)"; else echo "clean tree: demo FAILS (bad demo)"; tail -15 /tmp/sv-clean.log; exit 1; fi
rm $sub/zz_seed_demo_test.go
if ! git apply --3way $seed/patch.diff 2>/tmp/sv.err && ! git apply $seed/patch.diff 2>>/tmp/sv.err; then echo "patch does not apply"; cat /tmp/sv.err; exit 1; fi
if go build ./... && go test -vet=off -count=1 ./... >/tmp/sv-suite.log 2>&1; then echo "patched tree: suite PASSES (ok)"; else echo "patched tree: suite FAILS (bad seed)"; grep -v '^ok' /tmp/sv-suite.log | tail -15; exit 1; fi
cp $seed/demo_test.go $sub/zz_seed_demo_test.go
if go test -vet=off -count=1 -run . ./$sub >/tmp/sv-patched.log 2>&1; then echo "patched tree: demo PASSES (seed does not manifest)"; exit 1; else echo "patched tree: demo FAILS (ok)"; fi
echo "SEED CONFIRMED $seed"
