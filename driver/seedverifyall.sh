#!/bin/bash
# seedverifyall.sh [ids…] — re-confirm stored seeded changes against the current /repo HEAD (sequentially, scratch worktree each)
cd /verif
ids=${@:-$(ls seeded | grep -- "-m")}
for id in $ids; do
  pkg=$(grep -m1 '^package ' seeded/$id/demo_test.go | awk '{print $2}')
  case $pkg in
    liquid|liquid_test) sub=. ;;
    main) sub=cmd/liquid ;;
    *) sub=${pkg%_test} ;;
  esac
  res=$(driver/seedverify.sh seeded/$id $sub 2>&1 | tail -1 | cut -c1-150)
  echo "$id [$sub]: $res"
done
