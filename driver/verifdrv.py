#!/usr/bin/env python3
"""Orchestration for the liquid verification harness (python3 stdlib only).

  verifdrv.py <Cxx> quick|thorough     run one property's check
  verifdrv.py replay <file>            re-execute one saved case, bypassing rapid
  verifdrv.py setup                    toolchain check + warm build

All checking logic lives in the Go module /verif/harness; this script builds the
test binary from /repo's current working tree, shards it over worker
processes, unions their statistics, applies KNOWN_FINDINGS.txt, writes the
evidence file and maps the result to the exit code:
  0 held on everything explored (KNOWN-FINDING lines allowed)
  1 violation not listed in KNOWN_FINDINGS.txt   (VIOLATION property=<id> replay=<path>)
  2 cannot decide (build failure, worker death that cannot be attributed, fewer cases than requested)
"""
import array
import hashlib
import json
import os
import shutil
import subprocess
import sys
import time

ROOT = os.path.dirname(os.path.dirname(os.path.abspath(__file__)))
HARNESS = os.path.join(ROOT, "harness")
WORK = os.path.join(ROOT, ".work")
REPO = os.environ.get("VERIF_REPO", "/repo")

# per-property orchestration knobs; case counts live in the Go checks
PROPS = {
    # id: (test function, quick shards, thorough shards, race build)
    "C01": ("TestC01", 16, 16, False),
    "C02": ("TestC02", 8, 16, False),
    "C03": ("TestC03", 8, 16, False),
    "C04": ("TestC04", 8, 16, True),
    "C05": ("TestC05", 16, 16, False),
    "C06": ("TestC06", 16, 16, False),
    "C07": ("TestC07", 8, 16, False),
    "C08": ("TestC08", 8, 16, False),
    "C09": ("TestC09", 8, 16, False),
    "C10": ("TestC10", 8, 16, False),
    "C11": ("TestC11", 8, 16, False),
    "C12": ("TestC12", 8, 16, False),
    "C13": ("TestC13", 8, 16, False),
    "C14": ("TestC14", 8, 16, False),
    "C15": ("TestC15", 8, 16, False),
    "C16": ("TestC16", 16, 16, False),
    "C17": ("TestC17", 8, 16, False),
    "C18": ("TestC18", 8, 16, False),
    "C19": ("TestC19", 16, 16, False),
    "C20": ("TestC20", 8, 16, False),
}

LEVEL = {"C20": "fault_enumeration"}
# native fuzz targets, thorough tier only (go's fuzzer cannot be seeded: reproducible through saved crashers only)
FUZZ = {"C01": ["FuzzParseAndRender"], "C05": ["FuzzScan"], "C06": ["FuzzBlocks"], "C19": ["FuzzDelims"]}
DEATH_IS_VIOLATION = {"C01"}


def goenv():
    env = dict(os.environ)
    env.update({
        "GOFLAGS": "-mod=mod", "GOPROXY": "off", "GOSUMDB": "off", "GOTOOLCHAIN": "local",
        "TZ": "UTC", "VERIF_ROOT": ROOT, "GORACE": "halt_on_error=0",
    })
    env.pop("GOWORK", None)
    return env


def log(msg):
    print(msg, flush=True)


def build(race, tag):
    """Build the test binary against /repo's current working tree."""
    os.makedirs(os.path.join(WORK, "bin"), exist_ok=True)
    out = os.path.join(WORK, "bin", "props.%s%s.test" % (tag, ".race" if race else ""))
    cmd = ["go", "test", "-c", "-tags", "verif", "-o", out]
    if race:
        cmd.append("-race")
    alt = os.environ.get("VERIF_REPO")
    if alt:
        # development aid only (no registered command sets it): build against another copy of the
        # tree, e.g. a scratch worktree, while /repo itself is busy
        d = os.path.join(WORK, "altmod.%d" % os.getpid())
        os.makedirs(d, exist_ok=True)
        with open(os.path.join(HARNESS, "go.mod")) as f:
            mod = f.read().replace("=> /repo", "=> " + alt)
        with open(os.path.join(d, "go.mod"), "w") as f:
            f.write(mod)
        shutil.copy(os.path.join(HARNESS, "go.sum"), os.path.join(d, "go.sum"))
        cmd.append("-modfile=" + os.path.join(d, "go.mod"))
        log("NOTE: building against VERIF_REPO=%s instead of /repo" % alt)
    cmd.append("./props")
    t0 = time.time()
    p = subprocess.run(cmd, cwd=HARNESS, env=goenv(), stdout=subprocess.PIPE, stderr=subprocess.STDOUT, text=True)
    if p.returncode != 0:
        log("BUILD FAILED (cannot decide):\n" + p.stdout[-4000:])
        return None
    log("built %s in %.1fs" % (os.path.basename(out), time.time() - t0))
    return out


def write_replay(prop, v):
    d = os.path.join(ROOT, "replays", prop)
    os.makedirs(d, exist_ok=True)
    body = json.dumps(v, indent=1, sort_keys=True)
    h = hashlib.sha1(body.encode()).hexdigest()[:12]
    path = os.path.join(d, "%s-%s.json" % (v.get("check", "case").replace("/", "_"), h))
    with open(path, "w") as f:
        f.write(body + "\n")
    return path


def load_findings(prop):
    out = {}
    try:
        with open(os.path.join(ROOT, "KNOWN_FINDINGS.txt")) as f:
            for line in f:
                line = line.strip()
                if not line.startswith("finding:"):
                    continue
                head, _, text = line[len("finding:"):].partition("::")
                kv = dict(x.split("=", 1) for x in head.split() if "=" in x)
                if kv.get("property") == prop:
                    out[kv.get("id", "?")] = text.strip()
    except FileNotFoundError:
        pass
    return out


def run_check(prop, tier):
    if prop not in PROPS:
        log("unknown property %s" % prop)
        return 2
    test, qshards, tshards, race = PROPS[prop]
    seed = int(os.environ.get("VERIF_SEED", "1") or "1")
    nshards = int(os.environ.get("VERIF_SHARDS", "0") or "0") or (tshards if tier == "thorough" else qshards)
    t0 = time.time()
    tag = "%s.%d" % (prop, os.getpid())
    binary = build(race, tag)
    if binary is None:
        return 2
    outdir = os.path.join(WORK, "run-%s" % tag)
    shutil.rmtree(outdir, ignore_errors=True)
    os.makedirs(outdir)
    try:
        return _run(prop, tier, test, seed, nshards, binary, outdir, t0)
    finally:
        try:
            os.remove(binary)
        except OSError:
            pass
        if not os.environ.get("VERIF_KEEP"):
            shutil.rmtree(outdir, ignore_errors=True)


def _run(prop, tier, test, seed, nshards, binary, outdir, t0):
    procs = []
    for i in range(nshards):
        env = goenv()
        env.update({"VERIF_TIER": tier, "VERIF_SEED": str(seed), "VERIF_SHARD": str(i),
                    "VERIF_NSHARDS": str(nshards), "VERIF_OUT": outdir})
        if PROPS[prop][3]:
            # race reports go to a per-shard file the check reads back to attribute and sign them
            rl = os.path.join(outdir, "race.%d" % i)
            env["GORACE"] = "halt_on_error=0 log_path=" + rl
            env["VERIF_RACE_LOG"] = rl
        if "GOMAXPROCS" not in os.environ and not PROPS[prop][3]:
            # one worker per core: keep each worker's GC from fighting the others
            env["GOMAXPROCS"] = str(max(2, (os.cpu_count() or 16) // nshards))
        lf = open(os.path.join(outdir, "log.%d.txt" % i), "w")
        p = subprocess.Popen([binary, "-test.run", "^%s$" % test, "-test.timeout", "0", "-test.count", "1", "-test.v"],
                             cwd=os.path.join(HARNESS, "props"), env=env, stdout=lf, stderr=subprocess.STDOUT)
        procs.append((i, p, lf))
    rcs = {}
    limit = float(os.environ.get("VERIF_TIMEOUT", "0") or 0)
    if limit <= 0:
        limit = 5400 if tier == "thorough" else 1200
    deadline = time.time() + limit
    for i, p, lf in procs:
        try:
            rcs[i] = p.wait(timeout=max(1, deadline - time.time()))
        except subprocess.TimeoutExpired:
            p.kill()
            rcs[i] = "killed at the run's overall time limit"
            p.wait()
        lf.close()

    stats, problems, violations = [], [], []
    for i in range(nshards):
        sp = os.path.join(outdir, "stats.%d.json" % i)
        st = None
        if os.path.exists(sp):
            with open(sp) as f:
                st = json.load(f)
        if st is None or not st.get("complete"):
            # the worker died or hung: attribute through the journal
            jp = os.path.join(outdir, "journal.%d.json" % i)
            tail, fatal = "", ""
            try:
                with open(os.path.join(outdir, "log.%d.txt" % i)) as f:
                    whole = f.read()
                tail = whole[-3000:]
                k = whole.find("fatal error: concurrent map")
                if k >= 0:
                    fatal = whole[k:k + 2500]
            except OSError:
                pass
            if st is not None and st.get("hung"):
                problems.append("shard %d: a case exceeded the hang budget: %s" % (i, st["hung"][:500]))
            elif fatal and PROPS[prop][3] and os.path.exists(jp) and "github.com/osteele/liquid" in fatal:
                # the Go runtime itself caught two goroutines in one map inside the library: that is a data
                # race whether or not the schedule repeats when the case is run again
                with open(jp) as f:
                    jcase = f.read()
                try:
                    cj = json.loads(jcase)
                except ValueError:
                    cj = {"raw": jcase}
                violations.append({"property": prop, "check": cj.get("check", "journal"), "sig": "fatal:concurrent-map-access",
                                   "message": "the Go runtime stopped the worker during this case: " + fatal,
                                   "case": cj.get("case", cj)})
            elif os.path.exists(jp):
                with open(jp) as f:
                    jcase = f.read()
                confirmed = confirm_death(binary, jcase, outdir)
                if confirmed and prop in DEATH_IS_VIOLATION:
                    try:
                        cj = json.loads(jcase)
                    except ValueError:
                        cj = {"raw": jcase}
                    violations.append({"property": prop, "check": cj.get("check", "journal"), "sig": "process-death",
                                       "message": "the worker process died on this case and dies again when it is run alone: " + tail[-600:],
                                       "case": cj.get("case", cj)})
                else:
                    problems.append("shard %d died (rc=%s); journaled case %s reproduce the death\n%s" % (
                        i, rcs[i], "DID" if confirmed else "did not", tail))
            else:
                problems.append("shard %d died without statistics (rc=%s)\n%s" % (i, rcs[i], tail))
        if st is not None:
            stats.append(st)

    # union
    subs = {}
    kf_hits = {}
    for st in stats:
        violations.extend(st.get("violations") or [])
        for k, n in (st.get("kf_hits") or {}).items():
            kf_hits[k] = kf_hits.get(k, 0) + n
        for s in st["subs"]:
            a = subs.setdefault(s["name"], {"name": s["name"], "rule": s["rule"], "exhaustive": s["exhaustive"],
                                            "evaluations": 0, "nt_by_construction": 0, "unspecified": 0, "excluded": 0,
                                            "requested": 0, "classes": {}, "samples": [], "notes": [], "hashes": set()})
            for k in ("evaluations", "nt_by_construction", "unspecified", "excluded", "requested"):
                a[k] += s.get(k, 0)
            for k, n in (s.get("classes") or {}).items():
                a["classes"][k] = a["classes"].get(k, 0) + n
            if len(a["samples"]) < 8:
                a["samples"].extend((s.get("samples") or [])[:max(1, 8 // max(1, len(stats)))])
            for n in s.get("notes") or []:
                if n not in a["notes"]:
                    a["notes"].append(n)
            hp = os.path.join(outdir, "hashes.%d.%s.bin" % (st["shard"], s["name"]))
            if os.path.exists(hp):
                arr = array.array("Q")
                with open(hp, "rb") as f:
                    arr.frombytes(f.read())
                a["hashes"].update(arr)

    evaluations = sum(a["evaluations"] for a in subs.values())
    distinct = sum(a["nt_by_construction"] + len(a["hashes"]) for a in subs.values())
    breakdown = []
    samples = []
    for a in subs.values():
        d = {k: a[k] for k in ("name", "rule", "exhaustive", "evaluations", "unspecified", "excluded", "classes", "notes")}
        d["distinct_nontrivial"] = a["nt_by_construction"] + len(a["hashes"])
        breakdown.append(d)
        for s in a["samples"][:4]:
            samples.append({"check": a["name"], "case": s})
        # rapid stops early only on failure or deadline; fewer evaluations than requested
        # without a violation means the run is incomplete
        if a["requested"] and a["evaluations"] < a["requested"] and not any(v.get("check") == a["name"] for v in violations):
            problems.append("check %s ran %d cases of %d requested" % (a["name"], a["evaluations"], a["requested"]))

    fuzz_info = []
    if tier == "thorough" and prop in FUZZ and not violations:
        for target in FUZZ[prop]:
            info = run_fuzz(prop, target, outdir)
            fuzz_info.append(info)
            violations.extend(info.pop("violations"))
            problems.extend(info.pop("problems"))
            evaluations += info.get("execs", 0)

    real = [v for v in violations if v.get("sig") != "harness-error"]
    harness_errors = [v for v in violations if v.get("sig") == "harness-error"]
    for v in harness_errors:
        problems.append("harness error in %s: %s" % (v.get("check"), v.get("message", "")[:2000]))

    findings = load_findings(prop)
    wall = time.time() - t0
    rule = " || ".join("%s: %s" % (a["name"], a["rule"]) for a in subs.values())
    evidence = {
        "property_id": prop, "tier": tier, "seed": seed, "level": LEVEL.get(prop, "exploration"),
        "coverage": {
            "evaluations": evaluations, "distinct_nontrivial": distinct, "rule": rule, "samples": samples,
            "exhaustive": bool(subs) and all(a["exhaustive"] for a in subs.values()),
            "checks": breakdown, "shards": nshards,
            "known_findings_hit": {k: kf_hits[k] for k in sorted(kf_hits)},
            "native_fuzz_campaigns": fuzz_info,
            "inconclusive": problems,
        },
        "assumptions": [
            "the Go toolchain, rapid v1.3.0 and the harness's reference models (harness/hx) are trusted",
            "a green run means: held on the cases counted here, not absence of violations",
        ],
        "wall_s": round(wall, 2), "violations": len(real),
    }
    # evidence describes /repo; a development run against another tree (VERIF_REPO) keeps its record in the scratch area
    evdir = os.path.join(WORK, "evidence-alt") if os.environ.get("VERIF_REPO") else os.path.join(ROOT, "evidence")
    os.makedirs(evdir, exist_ok=True)
    with open(os.path.join(evdir, "%s.json" % prop), "w") as f:
        json.dump(evidence, f, indent=1)
        f.write("\n")

    log("%s %s seed=%d shards=%d: %d evaluations, %d distinct non-trivial, %.1fs" % (prop, tier, seed, nshards, evaluations, distinct, wall))
    for d in breakdown:
        log("  %-28s evals=%-9d nt=%-9d unspecified=%d excluded=%d%s" % (d["name"], d["evaluations"], d["distinct_nontrivial"], d["unspecified"], d["excluded"], " exhaustive" if d["exhaustive"] else ""))
    for k in sorted(kf_hits):
        log("KNOWN-FINDING: property=%s %s (%s; hit %d times)" % (prop, findings.get(k, k), k, kf_hits[k]))
    if real:
        seen = set()
        for v in real:
            key = (v.get("check"), v.get("sig"))
            if key in seen:
                continue
            seen.add(key)
            path = write_replay(prop, v)
            log("VIOLATION property=%s replay=%s" % (prop, path))
            log("  check=%s sig=%s\n  %s" % (v.get("check"), v.get("sig"), v.get("message", "")[:1500]))
        return 1
    if problems:
        for p in problems:
            log("INCONCLUSIVE: " + p)
        return 2
    return 0


def run_fuzz(prop, target, outdir):
    """One coverage-guided campaign of a native fuzz target (its oracle is the check's own Eval)."""
    import re
    fuzztime = os.environ.get("VERIF_FUZZTIME", "120s")
    cache = os.path.join(WORK, "fuzzcache")
    os.makedirs(cache, exist_ok=True)
    crashdir = os.path.join(HARNESS, "props", "testdata", "fuzz", target)
    shutil.rmtree(crashdir, ignore_errors=True)
    cmd = ["go", "test", "-tags", "verif", "-run", "^$", "-fuzz", "^%s$" % target, "-fuzztime", fuzztime,
           "./props", "-test.fuzzcachedir", cache]
    t0 = time.time()
    env = goenv()
    env["VERIF_OUT"] = outdir
    try:
        p = subprocess.run(cmd, cwd=HARNESS, env=env, stdout=subprocess.PIPE, stderr=subprocess.STDOUT, text=True, timeout=3600)
        out, rc = p.stdout, p.returncode
    except subprocess.TimeoutExpired as e:
        out, rc = (e.stdout or "") + "\n[driver] fuzz campaign timed out", 2
    info = {"target": target, "fuzztime": fuzztime, "wall_s": round(time.time() - t0, 1), "execs": 0, "violations": [], "problems": []}
    m = re.findall(r"execs: (\d+)", out)
    if m:
        info["execs"] = int(m[-1])
    m = re.findall(r"new interesting: (\d+) \(total: (\d+)\)", out)
    if m:
        info["corpus_total"] = int(m[-1][1])
    for line in out.splitlines():
        i = line.find("VERIF-VIOLATION ")
        if i >= 0:
            try:
                info["violations"].append(json.loads(line[i + len("VERIF-VIOLATION "):]))
            except ValueError:
                info["problems"].append("unparsable fuzz violation: " + line[:500])
    if rc != 0 and not info["violations"]:
        saved = []
        if os.path.isdir(crashdir):
            dst = os.path.join(ROOT, "replays", prop)
            os.makedirs(dst, exist_ok=True)
            for f in os.listdir(crashdir):
                shutil.copy(os.path.join(crashdir, f), os.path.join(dst, "fuzz-%s-%s" % (target, f)))
                saved.append(os.path.join(dst, "fuzz-%s-%s" % (target, f)))
        info["problems"].append("fuzz target %s ended abnormally (rc=%s) without a recorded violation; crashers kept: %s\n%s" % (target, rc, saved, out[-2500:]))
    shutil.rmtree(crashdir, ignore_errors=True)
    log("  native fuzz %-22s %s, %d execs, %d violation(s)" % (target, fuzztime, info["execs"], len(info["violations"])))
    return info


def confirm_death(binary, jcase, outdir):
    """Re-run the journaled case alone in a child; True if the child dies abnormally too."""
    path = os.path.join(outdir, "journal-replay.json")
    with open(path, "w") as f:
        f.write(jcase)
    env = goenv()
    env["VERIF_REPLAY"] = path
    try:
        p = subprocess.run([binary, "-test.run", "^TestReplay$", "-test.timeout", "300s"], cwd=os.path.join(HARNESS, "props"),
                           env=env, stdout=subprocess.PIPE, stderr=subprocess.STDOUT, text=True, timeout=400)
    except subprocess.TimeoutExpired:
        return True
    # a clean replay exits 0 (held) or 1 with REPLAY-VIOLATION (ordinary violation); anything else is a death
    return p.returncode not in (0,) and "REPLAY-" not in p.stdout


def replay(path):
    with open(path) as f:
        v = json.load(f)
    prop = v.get("property", "")
    race = PROPS.get(prop, ("", 0, 0, False))[3]
    binary = build(race, "replay.%d" % os.getpid())
    if binary is None:
        return 2
    env = goenv()
    env["VERIF_REPLAY"] = os.path.abspath(path)
    try:
        p = subprocess.run([binary, "-test.run", "^TestReplay$", "-test.timeout", "600s", "-test.v"],
                           cwd=os.path.join(HARNESS, "props"), env=env, stdout=subprocess.PIPE, stderr=subprocess.STDOUT, text=True)
    finally:
        os.remove(binary)
    out = p.stdout
    sys.stdout.write(out[-6000:])
    if "REPLAY-VIOLATION" in out:
        log("VIOLATION property=%s replay=%s" % (prop, os.path.abspath(path)))
        return 1
    if "REPLAY-OK" in out:
        return 0
    if p.returncode != 0:
        log("replay process died (rc=%d)" % p.returncode)
        if prop in DEATH_IS_VIOLATION:
            log("VIOLATION property=%s replay=%s" % (prop, os.path.abspath(path)))
            return 1
    return 2


def setup():
    p = subprocess.run(["go", "version"], env=goenv(), stdout=subprocess.PIPE, stderr=subprocess.STDOUT, text=True)
    log(p.stdout.strip())
    if p.returncode != 0:
        return 2
    b = build(False, "setup")
    if b is None:
        return 2
    os.remove(b)
    b = build(True, "setup")
    if b is None:
        return 2
    os.remove(b)
    return 0


def main():
    a = sys.argv[1:]
    if len(a) == 1 and a[0] == "setup":
        return setup()
    if len(a) == 2 and a[0] == "replay":
        return replay(a[1])
    if len(a) == 2 and a[1] in ("quick", "thorough"):
        return run_check(a[0], a[1])
    sys.stderr.write(__doc__)
    return 2


if __name__ == "__main__":
    sys.exit(main())
