module verifharness

go 1.23

require (
	github.com/osteele/liquid v0.0.0
	gopkg.in/yaml.v2 v2.4.0
	pgregory.net/rapid v1.3.0
)

require github.com/osteele/tuesday v1.0.3 // indirect

replace github.com/osteele/liquid => /repo
