package hx

import (
	"encoding/binary"
	"encoding/json"
	"fmt"
	"hash/fnv"
	"os"
	"path/filepath"
	"runtime"
	"sort"
	"strconv"
	"sync"
	"sync/atomic"
	"time"
)

// Env is the run configuration handed to a worker process by the driver.
type Env struct {
	Tier    string // quick | thorough
	Seed    uint64 // VERIF_SEED
	Shard   int
	NShards int
	OutDir  string // where stats / hashes / journal are written
}

// GetEnv reads the worker configuration from the environment.
func GetEnv() Env {
	e := Env{Tier: "quick", Seed: 1, NShards: 1}
	if v := os.Getenv("VERIF_TIER"); v != "" {
		e.Tier = v
	}
	if v, err := strconv.ParseUint(os.Getenv("VERIF_SEED"), 10, 64); err == nil {
		e.Seed = v
	}
	if v, err := strconv.Atoi(os.Getenv("VERIF_SHARD")); err == nil {
		e.Shard = v
	}
	if v, err := strconv.Atoi(os.Getenv("VERIF_NSHARDS")); err == nil && v > 0 {
		e.NShards = v
	}
	e.OutDir = os.Getenv("VERIF_OUT")
	return e
}

// Thorough reports whether the thorough tier was requested.
func (e Env) Thorough() bool { return e.Tier == "thorough" }

// Pick returns q in the quick tier and th in the thorough tier.
func (e Env) Pick(q, th int) int {
	if e.Thorough() {
		return th
	}
	return q
}

// PerShard divides a total case count over the shards (rounded up).
func (e Env) PerShard(total int) int {
	n := (total + e.NShards - 1) / e.NShards
	if n < 1 {
		n = 1
	}
	return n
}

// Mine reports whether the enumeration index i belongs to this shard.
func (e Env) Mine(i int) bool { return i%e.NShards == e.Shard }

// A Violation is a case on which the property did not hold.
type Violation struct {
	Property string          `json:"property"`
	Check    string          `json:"check"`
	Sig      string          `json:"sig"` // structural signature, matched against KNOWN_FINDINGS.txt
	Message  string          `json:"message"`
	Case     json.RawMessage `json:"case"`
}

// Sub collects the statistics of one sub-check.
type Sub struct {
	Name        string            `json:"name"`
	Rule        string            `json:"rule"`
	Exhaustive  bool              `json:"exhaustive"`
	Evals       int64             `json:"evaluations"`
	NTDistinct  int64             `json:"nt_by_construction"`
	Unspecified int64             `json:"unspecified"`
	Excluded    int64             `json:"excluded"`
	Requested   int64             `json:"requested"`
	Classes     map[string]int64  `json:"classes"`
	Samples     []json.RawMessage `json:"samples"`
	Notes       []string          `json:"notes,omitempty"`

	mu       sync.Mutex
	hashes   map[uint64]struct{}
	sampleAt int64
	col      *Collector
}

// Collector gathers what one worker process did for one property.
type Collector struct {
	Property string
	Env      Env
	start    time.Time
	mu       sync.Mutex
	subs     []*Sub
	viol     []Violation
	kfHits   map[string]int64
	kf       []Finding
	pending  *Violation // last violation seen inside a rapid run (the shrunk one ends up here)
	inRapid  bool

	curStart atomic.Int64 // unix nanos of the running case, 0 when idle
	curDesc  atomic.Value // func() string
	curHang  atomic.Value // func() *Violation
	journal  *os.File
	hung     bool
}

// NewCollector creates the collector and starts the hang watchdog.
func NewCollector(property string) *Collector {
	c := &Collector{Property: property, Env: GetEnv(), start: time.Now(), kfHits: map[string]int64{}}
	c.kf = LoadFindings(property)
	if c.Env.OutDir != "" {
		_ = os.MkdirAll(c.Env.OutDir, 0o755)
	}
	go c.watchdog()
	return c
}

// Sub creates a sub-check record.
func (c *Collector) Sub(name, rule string, exhaustive bool) *Sub {
	s := &Sub{Name: name, Rule: rule, Exhaustive: exhaustive, Classes: map[string]int64{}, hashes: map[uint64]struct{}{}, col: c}
	c.mu.Lock()
	c.subs = append(c.subs, s)
	c.mu.Unlock()
	return s
}

// Eval counts one evaluated case.
func (s *Sub) Eval() { atomic.AddInt64(&s.Evals, 1) }

// NT records a non-trivial case that is distinct by construction (exhaustive enumerations).
func (s *Sub) NT() { atomic.AddInt64(&s.NTDistinct, 1) }

// NTKey records a non-trivial case identified by key; distinct keys are counted once.
func (s *Sub) NTKey(key string) {
	h := fnv.New64a()
	h.Write([]byte(key))
	v := h.Sum64()
	s.mu.Lock()
	s.hashes[v] = struct{}{}
	s.mu.Unlock()
}

// Class bumps a histogram bucket.
func (s *Sub) Class(name string) {
	s.mu.Lock()
	s.Classes[name]++
	s.mu.Unlock()
}

// Unspec counts a case whose expected value the property leaves open.
func (s *Sub) Unspec() { atomic.AddInt64(&s.Unspecified, 1) }

// Exclude counts a generated input dropped by construction.
func (s *Sub) Exclude() { atomic.AddInt64(&s.Excluded, 1) }

// WantSample reports whether the caller should supply a sample now (keeps the
// first three and then exponentially spaced ones, at most 12).
func (s *Sub) WantSample() bool {
	n := atomic.LoadInt64(&s.Evals)
	s.mu.Lock()
	defer s.mu.Unlock()
	if len(s.Samples) >= 12 {
		return false
	}
	if n >= s.sampleAt {
		if s.sampleAt < 3 {
			s.sampleAt++
		} else {
			s.sampleAt = s.sampleAt*3 + 1
		}
		return true
	}
	return false
}

// Sample stores v (JSON-encoded) as one of the cases shown in the evidence.
func (s *Sub) Sample(v any) {
	b, err := json.Marshal(v)
	if err != nil {
		b, _ = json.Marshal(fmt.Sprintf("%+v", v))
	}
	if len(b) > 1500 {
		b, _ = json.Marshal(string(b[:1500]) + "…")
	}
	s.mu.Lock()
	s.Samples = append(s.Samples, b)
	s.mu.Unlock()
}

// Note attaches a free-text remark to the sub-check record.
func (s *Sub) Note(format string, a ...any) {
	s.mu.Lock()
	s.Notes = append(s.Notes, fmt.Sprintf(format, a...))
	s.mu.Unlock()
}

// Begin marks the start of a case for the hang watchdog; desc is only called if the case hangs.
func (c *Collector) Begin(desc func() string) {
	c.curDesc.Store(desc)
	c.curHang.Store((func() *Violation)(nil))
	c.curStart.Store(time.Now().UnixNano())
}

// BeginV is Begin for cases in which a hang (or a memory blow-up) is itself a
// violation of the property: onHang builds the violation record.
func (c *Collector) BeginV(desc func() string, onHang func() *Violation) {
	c.curDesc.Store(desc)
	c.curHang.Store(onHang)
	c.curStart.Store(time.Now().UnixNano())
}

// End marks the end of a case.
func (c *Collector) End() { c.curStart.Store(0) }

// Journal writes the case about to run to the worker's journal file, so that a
// failure that kills the process can be attributed.
func (c *Collector) Journal(b []byte) {
	if c.Env.OutDir == "" {
		return
	}
	if c.journal == nil {
		f, err := os.Create(filepath.Join(c.Env.OutDir, fmt.Sprintf("journal.%d.json", c.Env.Shard)))
		if err != nil {
			return
		}
		c.journal = f
	}
	_, _ = c.journal.WriteAt(b, 0)
	_ = c.journal.Truncate(int64(len(b)))
}

// HangBudget is how long one case may run before the worker gives up on it.
var HangBudget = 60 * time.Second

// MemBudget is how large the heap may grow during one case.
var MemBudget uint64 = 3 << 30

func (c *Collector) watchdog() {
	for {
		time.Sleep(time.Second)
		st := c.curStart.Load()
		if st == 0 {
			continue
		}
		var ms runtime.MemStats
		runtime.ReadMemStats(&ms)
		blowup := ms.HeapAlloc > MemBudget
		if blowup || time.Since(time.Unix(0, st)) > HangBudget {
			desc := "?"
			if f, ok := c.curDesc.Load().(func() string); ok && f != nil {
				desc = f()
			}
			if blowup {
				desc = fmt.Sprintf("heap grew to %d MiB: %s", ms.HeapAlloc>>20, desc)
			}
			if f, ok := c.curHang.Load().(func() *Violation); ok && f != nil {
				if v := f(); v != nil {
					v.Message = "did not return (" + desc + "): " + v.Message
					c.inRapid = false
					if c.Report(*v) == nil {
						// a listed known finding: the worker still cannot continue past a hung case
						desc = "known finding, worker stopped: " + desc
					} else {
						c.write("")
						os.Exit(3)
					}
				}
			}
			c.mu.Lock()
			c.hung = true
			c.mu.Unlock()
			c.write(desc)
			os.Exit(3)
		}
	}
}

// Report handles a violation found by a check: a listed known finding is counted
// and swallowed (nil is returned), anything else is recorded and returned.
func (c *Collector) Report(v Violation) *Violation {
	v.Property = c.Property
	if id, ok := MatchFinding(c.kf, v); ok {
		c.mu.Lock()
		c.kfHits[id]++
		c.mu.Unlock()
		return nil
	}
	c.mu.Lock()
	defer c.mu.Unlock()
	if c.inRapid {
		vv := v
		c.pending = &vv
		return &vv
	}
	for _, old := range c.viol {
		if old.Check == v.Check && old.Sig == v.Sig {
			return &v // one (minimal-so-far) witness per signature is enough
		}
	}
	if len(c.viol) < 60 {
		c.viol = append(c.viol, v)
	}
	return &v
}

// Failed reports whether any unlisted violation has been recorded.
func (c *Collector) Failed() bool {
	c.mu.Lock()
	defer c.mu.Unlock()
	return len(c.viol) > 0
}

type statsFile struct {
	Property   string           `json:"property"`
	Shard      int              `json:"shard"`
	Tier       string           `json:"tier"`
	Seed       uint64           `json:"seed"`
	WallS      float64          `json:"wall_s"`
	Subs       []*Sub           `json:"subs"`
	HashCounts map[string]int   `json:"hash_counts"`
	Violations []Violation      `json:"violations"`
	KFHits     map[string]int64 `json:"kf_hits"`
	Hung       string           `json:"hung,omitempty"`
	Complete   bool             `json:"complete"`
}

// Finish writes the worker's statistics; it must be the last thing a check does.
func (c *Collector) Finish() { c.write("") }

func (c *Collector) write(hung string) {
	c.mu.Lock()
	defer c.mu.Unlock()
	sf := statsFile{
		Property: c.Property, Shard: c.Env.Shard, Tier: c.Env.Tier, Seed: c.Env.Seed,
		WallS: time.Since(c.start).Seconds(), Subs: c.subs, Violations: c.viol, KFHits: c.kfHits,
		Hung: hung, Complete: hung == "", HashCounts: map[string]int{},
	}
	if sf.Violations == nil {
		sf.Violations = []Violation{}
	}
	dir := c.Env.OutDir
	if dir == "" {
		// no driver: print a short summary instead
		for _, s := range c.subs {
			fmt.Printf("[%s] %s: evals=%d nt=%d unspecified=%d excluded=%d classes=%v\n", c.Property, s.Name, s.Evals, s.NTDistinct+int64(len(s.hashes)), s.Unspecified, s.Excluded, s.Classes)
		}
		for _, v := range c.viol {
			fmt.Printf("[%s] VIOLATION check=%s sig=%s: %s\n  case: %s\n", c.Property, v.Check, v.Sig, v.Message, string(v.Case))
		}
		for id, n := range c.kfHits {
			fmt.Printf("[%s] known finding %s hit %d times\n", c.Property, id, n)
		}
		return
	}
	for _, s := range c.subs {
		s.mu.Lock()
		sf.HashCounts[s.Name] = len(s.hashes)
		if len(s.hashes) > 0 {
			keys := make([]uint64, 0, len(s.hashes))
			for h := range s.hashes {
				keys = append(keys, h)
			}
			sort.Slice(keys, func(i, j int) bool { return keys[i] < keys[j] })
			buf := make([]byte, 8*len(keys))
			for i, h := range keys {
				binary.LittleEndian.PutUint64(buf[8*i:], h)
			}
			_ = os.WriteFile(filepath.Join(dir, fmt.Sprintf("hashes.%d.%s.bin", c.Env.Shard, s.Name)), buf, 0o644)
		}
		s.mu.Unlock()
	}
	b, _ := json.MarshalIndent(sf, "", " ")
	_ = os.WriteFile(filepath.Join(dir, fmt.Sprintf("stats.%d.json", c.Env.Shard)), b, 0o644)
}

// Mix derives a rapid seed (never 0) from the run seed, a name and the shard.
func (e Env) Mix(name string) uint64 {
	h := fnv.New64a()
	h.Write([]byte(name))
	x := e.Seed*0x9E3779B97F4A7C15 + h.Sum64() + uint64(e.Shard)*0xBF58476D1CE4E5B9
	x ^= x >> 30
	x *= 0xBF58476D1CE4E5B9
	x ^= x >> 27
	x *= 0x94D049BB133111EB
	x ^= x >> 31
	return x | 1
}

// MustJSON marshals v, panicking on failure (cases are plain data).
func MustJSON(v any) json.RawMessage {
	b, err := json.Marshal(v)
	if err != nil {
		panic(err)
	}
	return b
}
