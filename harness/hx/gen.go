package hx

import (
	"fmt"
	"strings"

	"pgregory.net/rapid"
)

// ---- rapid generators for well-formed programs ----
//
// The generator tracks the static kind of the expressions it builds, so that
// most programs have a fully specified expected output (a kind-blind generator
// wasted ~40% of its cases on unspecified outcomes in the design spike).

// Program is a generated template together with its bindings.
type Program struct {
	Nodes []*N     `json:"nodes"`
	Binds Bindings `json:"binds"`
}

// Source prints the program conventionally.
func (p *Program) Source() string { return Source(p.Nodes) }

// Profile selects the constructs a generator may use.
type Profile struct {
	MaxNodes         int
	MaxDepth         int
	Loops            bool
	Tablerow         bool
	Cond             bool
	Case             bool
	Assign           bool
	Capture          bool
	Cycle            bool
	Jumps            bool // break / continue
	Comment          bool
	Raw              bool
	MapLoops         bool // for over maps (order-sensitive: only for checks that do not use the model's output)
	Filters          bool
	WSText           bool // text chunks rich in whitespace (C13)
	LongText         bool // with WSText: occasionally a text chunk of 4 KiB..70 KiB
	Twins            bool // two arrays derived from one filtered array by concat, the first read again after the second was made
	NoArith          bool
	Failing          bool // may contain one construct that fails at render time
	BigMaps          bool // bind maps with 2..12 entries (C02)
	Ticks            bool // conditions may pass through the counting filter `tick`
	NumPrint         bool // numeric variables only where C18 names them: print, comparison, case/when, arithmetic (not as index, limit, offset or range endpoint)
	CapturePrintOnly bool // captured text is only ever printed, never measured or compared (C13: its white space may legitimately differ)
	LoopRecord       bool // a loop body may keep its forloop record in a variable (lf) and read it later
	BareJumps        bool // break / continue may stand directly in a loop body, not only under an if
	PlainPunct       bool // no [ ] < > in tags and objects (C19: those characters may be delimiters)
	TypedNames       bool // assignments use one variable name per kind (C18: role-typed programs)
	OrdMap           bool // use the ordered-map binding ms (lookup and size) and the byte-slice binding bs (print)
	PlainText        string
}

// FullProfile enables everything the model can follow.
func FullProfile() Profile {
	return Profile{MaxNodes: 14, MaxDepth: 3, Loops: true, Cond: true, Case: true, Assign: true, Capture: true, Cycle: true, Jumps: true, Comment: true, Raw: true, Filters: true}
}

type gkind int

const (
	gInt gkind = iota
	gStr
	gBool
	gNil
	gFloat
	gArrInt
	gArrStr
	gArrMix
	gMap
	gArrMap
	gNum // result of arithmetic (a float in the implementation)
)

type genv struct {
	t          *rapid.T
	p          Profile
	vars       map[string]gkind
	names      []string // assignable names
	inLoop     int
	budget     int
	fresh      int
	failed     bool
	noGrowth   bool
	anyLoop    int // loop nesting, also counted through capture bodies (inLoop is reset there for break/continue)
	noTablerow int // > 0 inside a capture body whose text generated expressions will read
}

var textAlphabet = []string{"", "x", "ab", " ", "y ", " z", "\n", ". ", "é", "1,"}
var wsAlphabet = []string{"", " ", "  ", "\n", " \n\t", "a", " b ", "\tc", "d\n", " \n e \n ", "voilà", "Å ", " 内", "\u00a0x\u00a0", "\u3000"}
var strPool = []string{"", "a", "b", "ab", "B", "a b", "é", "x1", " pad ", "a,b"}

// string literals: also runs of white space inside the quotes (which no re-spacing of the tag around them may touch)
var litPool = append(append([]string{}, strPool...), "a  b", " \t x", "  ")

// GenBindings draws the standard binding environment.
func GenBindings(t *rapid.T, p Profile) Bindings {
	small := rapid.Int64Range(-3, 9)
	str := rapid.SampledFrom(strPool)
	b := Bindings{}
	b["n"] = SInt(small.Draw(t, "n"))
	b["k"] = SInt(small.Draw(t, "k"))
	b["f"] = SFloat(float64(rapid.IntRange(-8, 20).Draw(t, "f")) / 4)
	b["s"] = SStr(str.Draw(t, "s"))
	b["u"] = SStr(str.Draw(t, "u"))
	b["b"] = SBool(rapid.Bool().Draw(t, "b"))
	arrInt := rapid.SliceOfN(small, 0, 5)
	a := SArr()
	for _, i := range arrInt.Draw(t, "a") {
		a.E = append(a.E, SInt(i))
	}
	b["a"] = a
	w := SArr()
	for _, s := range rapid.SliceOfN(str, 0, 4).Draw(t, "w") {
		w.E = append(w.E, SStr(s))
	}
	b["w"] = w
	x := SArr()
	for i, n := 0, rapid.IntRange(0, 4).Draw(t, "xn"); i < n; i++ {
		switch rapid.IntRange(0, 3).Draw(t, "xk") {
		case 0:
			x.E = append(x.E, SNil())
		case 1:
			x.E = append(x.E, SStr(str.Draw(t, "xs")))
		default:
			x.E = append(x.E, SInt(small.Draw(t, "xi")))
		}
	}
	b["x"] = x
	m := SMap()
	keys := []string{"a", "b", "c", "size", "first"}
	nk := rapid.IntRange(0, 3).Draw(t, "mn")
	if p.BigMaps {
		keys = []string{"a", "b", "c", "d", "e", "g", "h", "i", "j", "l", "o", "p"}
		nk = rapid.IntRange(2, 12).Draw(t, "mn")
	}
	perm := rapid.Permutation(keys).Draw(t, "mkeys")
	for _, k := range perm[:nk] {
		m.Keys = append(m.Keys, k)
		m.E = append(m.E, SInt(small.Draw(t, "mv")))
	}
	b["m"] = m
	r := SArr()
	for i, n := 0, rapid.IntRange(0, 3).Draw(t, "rn"); i < n; i++ {
		rec := SMap()
		if rapid.IntRange(0, 4).Draw(t, "hask") > 0 {
			rec.Keys = append(rec.Keys, "k")
			if rapid.IntRange(0, 5).Draw(t, "nilk") == 0 {
				rec.E = append(rec.E, SNil())
			} else {
				rec.E = append(rec.E, SInt(small.Draw(t, "rk")))
			}
		}
		rec.Keys = append(rec.Keys, "v")
		rec.E = append(rec.E, SStr(str.Draw(t, "rv")))
		r.E = append(r.E, rec)
	}
	b["r"] = r
	// "z" stays undefined; "nl" is bound to nil
	b["nl"] = SNil()
	if p.OrdMap {
		b["ms"] = SMap("a", SInt(small.Draw(t, "msa")), "b", SInt(small.Draw(t, "msb")))
		b["bs"] = SStr(str.Draw(t, "bs"))
		b["ba"] = SArr(SStr(str.Draw(t, "ba0")), SStr(str.Draw(t, "ba1")), SNil())
		// records whose values are all integers (so that each may be realised as a map[string]int), with distinct weights
		rn := SArr()
		ws := rapid.SliceOfNDistinct(rapid.Int64Range(-5, 9), 0, 4, func(v int64) int64 { return v }).Draw(t, "rnw")
		for i, w := range ws {
			rn.E = append(rn.E, SMap("w", SInt(w), "id", SInt(int64(i))))
		}
		b["rn"] = rn
	}
	return b
}

func baseVars() map[string]gkind {
	return map[string]gkind{"n": gInt, "k": gInt, "f": gFloat, "s": gStr, "u": gStr, "b": gBool, "a": gArrInt, "w": gArrStr, "x": gArrMix, "m": gMap, "r": gArrMap, "nl": gNil, "z": gNil}
}

// GenProgram draws a program and its bindings.
func GenProgram(t *rapid.T, p Profile) *Program {
	g := &genv{t: t, p: p, vars: baseVars(), budget: p.MaxNodes}
	if g.budget == 0 {
		g.budget = 12
	}
	binds := GenBindings(t, p)
	nodes := g.block(0, 1)
	return &Program{Nodes: nodes, Binds: binds}
}

func (g *genv) pick(label string, n int) int { return rapid.IntRange(0, n-1).Draw(g.t, label) }

func (g *genv) varsOf(kinds ...gkind) []string {
	var out []string
	for _, name := range sortedKeys(g.vars) {
		if name == "forloop" {
			// a template may assign forloop (C12 probes it afterwards), but inside a loop the name means the
			// loop record, whose undocumented fields (size, .cycles) nothing specifies: never read it as a value
			continue
		}
		for _, k := range kinds {
			if g.vars[name] == k {
				out = append(out, name)
			}
		}
	}
	return out
}

func sortedKeys(m map[string]gkind) []string {
	out := make([]string, 0, len(m))
	for k := range m {
		out = append(out, k)
	}
	// insertion sort: tiny maps, and no dependency on map order
	for i := 1; i < len(out); i++ {
		for j := i; j > 0 && out[j] < out[j-1]; j-- {
			out[j], out[j-1] = out[j-1], out[j]
		}
	}
	return out
}

func (g *genv) text() *N {
	if g.p.PlainText != "" {
		return Text(g.p.PlainText)
	}
	al := textAlphabet
	if g.p.WSText {
		al = wsAlphabet
		// now and then a chunk larger than any buffer the writers might keep (4 KiB, 64 KiB)
		if g.p.LongText && g.pick("longtext", 30) == 0 {
			n := []int{4096, 4200, 9000, 70000}[g.pick("longlen", 4)]
			// with and without white space at its edges, and made of one character or of words
			body := strings.Repeat("x", n)
			if g.pick("longwords", 3) == 0 {
				body = strings.Repeat("lorem=ipsum ", n/12)
			}
			return Text([]string{" \n", "", "="}[g.pick("longlead", 3)] + body + []string{" \n ", "", "\n"}[g.pick("longtail", 3)])
		}
	}
	return Text(rapid.SampledFrom(al).Draw(g.t, "text"))
}

// twin: an assigned value is to stay what it was when a second value is derived from the same source.
func (g *genv) twin() *N {
	arrs := []string{"a", "w", "x"}
	join := func(v string) *N { return Obj(Flt(Var(v), "join", LStr(","))) }
	return &N{T: "if", E: LBool(true), Body: []*N{
		Assign("tb", Flt(Var(arrs[g.pick("twarr", 3)]), []string{"uniq", "compact"}[g.pick("twf", 2)])),
		Assign("tc", Flt(Var("tb"), "concat", Var(arrs[g.pick("twp", 3)]))),
		join("tc"), Text("|"),
		Assign("td", Flt(Var("tb"), "concat", Var(arrs[g.pick("twq", 3)]))),
		join("tc"), Text("|"), join("td"), Text(";"),
	}}
}

// block draws a sequence of nodes.
func (g *genv) block(depth, min int) []*N {
	n := min + g.pick("len", 4)
	var out []*N
	for i := 0; i < n && (g.budget > 0 || len(out) < min); i++ {
		out = append(out, g.node(depth))
	}
	return out
}

func (g *genv) node(depth int) *N {
	g.budget--
	type opt struct {
		w int
		f func() *N
	}
	opts := []opt{
		{3, g.text},
		{4, func() *N { return Obj(g.printable(2)) }},
	}
	deep := depth < g.p.MaxDepth && g.budget > 0
	if g.p.OrdMap {
		// a byte slice is only promised to print as the string
		opts = append(opts, opt{1, func() *N { return Obj(Var("bs")) }})
		opts = append(opts, opt{1, func() *N { return Obj(Var("ba")) }}) // an array of such strings, printed as a whole
	}
	if g.p.Assign {
		opts = append(opts, opt{2, g.assign})
	}
	if g.p.Twins && g.p.Assign {
		opts = append(opts, opt{1, g.twin})
	}
	if g.p.Capture && deep {
		opts = append(opts, opt{1, func() *N { return g.capture(depth) }})
	}
	if g.p.CapturePrintOnly {
		opts = append(opts, opt{1, func() *N { return Obj(Var([]string{"c1", "c2", "ok?"}[g.pick("cprint", 3)])) }})
	}
	if g.p.Cond && deep {
		opts = append(opts, opt{3, func() *N { return g.ifNode(depth) }})
	}
	if g.p.Case && deep {
		opts = append(opts, opt{1, func() *N { return g.caseNode(depth) }})
	}
	if g.p.Loops && deep {
		opts = append(opts, opt{3, func() *N { return g.loopNode(depth, "for") }})
		if g.p.Tablerow && g.noTablerow == 0 {
			opts = append(opts, opt{1, func() *N { return g.loopNode(depth, "tablerow") }})
		}
	}
	if g.inLoop > 0 {
		if g.p.Cycle {
			opts = append(opts, opt{2, g.cycle})
		}
		if g.p.Jumps && deep {
			opts = append(opts, opt{1, func() *N { return g.jump(depth) }})
		}
		opts = append(opts, opt{2, func() *N {
			fields := []string{"index", "index0", "rindex", "rindex0", "length", "first", "last"}
			return Obj(Prop(Var("forloop"), fields[g.pick("ff", len(fields))]))
		}})
		if g.p.LoopRecord {
			opts = append(opts, opt{1, func() *N {
				if g.pick("lfcond", 2) == 0 {
					return &N{T: "if", E: Prop(Var("forloop"), "first"), Body: []*N{Assign("lf", Var("forloop"))}}
				}
				return Assign("lf", Var("forloop"))
			}})
		}
	}
	if g.p.LoopRecord {
		// the record assigned in some iteration keeps that iteration's values
		opts = append(opts, opt{1, func() *N {
			fields := []string{"index", "index0", "rindex", "length", "first", "last"}
			return Obj(Prop(Var("lf"), fields[g.pick("lff", len(fields))]))
		}})
	}
	if g.p.Comment {
		opts = append(opts, opt{1, func() *N {
			return &N{T: "comment", S: rapid.SampledFrom([]string{"", "x", " note ", "{{ n }}", "{% if %}", "{{ 1 | nofilter }}"}).Draw(g.t, "cbody")}
		}})
	}
	if g.p.Raw {
		opts = append(opts, opt{1, func() *N {
			return &N{T: "raw", S: rapid.SampledFrom([]string{"", "x", " r ", "{{ n }}", "{% if %}", "{{ 1 | nofilter }}"}).Draw(g.t, "rbody")}
		}})
	}
	total := 0
	for _, o := range opts {
		total += o.w
	}
	r := g.pick("node", total)
	for _, o := range opts {
		if r < o.w {
			return o.f()
		}
		r -= o.w
	}
	return g.text()
}

func (g *genv) newName() string {
	// reuse an existing assignable name sometimes (re-assignment, shadowing)
	pool := []string{"v1", "v2", "v3", "n", "s", "a", "my-var", "v1", "v2", "forloop"}
	name := pool[g.pick("name", len(pool))]
	if name == "forloop" && g.anyLoop > 0 {
		name = "v3" // assigning forloop inside a loop body: the statement does not say what the loop then sees
	}
	return name
}

func (g *genv) assign() *N {
	name := g.newName()
	kinds := []gkind{gInt, gStr, gBool, gArrInt, gArrStr, gInt, gStr, gNum}
	k := kinds[g.pick("akind", len(kinds))]
	if g.p.NoArith && k == gNum {
		k = gInt
	}
	if g.p.TypedNames {
		// one name per kind, so that whatever path the render takes a variable is only ever
		// used in positions that fit the kind of every value it can hold
		name = map[gkind]string{gInt: "vi", gNum: "vn", gStr: "vs", gBool: "vb", gArrInt: "va", gArrStr: "vw"}[k]
	}
	// Inside a loop an assignment must not be able to grow a value on every iteration
	// (a = a | concat: a doubles it; three nested loops would need 2^1000 elements):
	// growth filters are switched off there, which bounds every value by the program size.
	g.noGrowth = g.anyLoop > 0
	e := g.expr(k, 2)
	g.noGrowth = false
	g.vars[name] = k
	return Assign(name, e)
}

func (g *genv) capture(depth int) *N {
	name := []string{"c1", "c2", "ok?", "s"}[g.pick("cname", 4)]
	if name == "s" && (g.anyLoop > 0 || g.p.CapturePrintOnly) {
		name = "c1" // a captured variable printed inside its own capture body in a loop doubles on every iteration
	}
	// break/continue escaping a capture body is excluded by construction
	saved := g.inLoop
	g.inLoop = 0
	if name == "s" {
		// s is read by generated expressions (compared, measured); the reference model leaves out
		// tablerow's markup, so text captured into s must not contain any
		g.noTablerow++
	}
	body := g.block(depth+1, 1)
	if name == "s" {
		g.noTablerow--
	}
	g.inLoop = saved
	if name == "s" {
		g.vars[name] = gStr
	}
	// c1, c2 and ok? are read by the probes a check appends, never by generated expressions
	return Capture(name, body...)
}

func (g *genv) ifNode(depth int) *N {
	n := &N{T: "if", E: g.cond(2)}
	if g.pick("unless", 5) == 0 {
		n.T = "unless"
	}
	n.Body = g.block(depth+1, 0)
	if n.T == "if" {
		for i, k := 0, g.pick("elsifs", 3); i < k; i++ {
			n.Cl = append(n.Cl, &Clause{T: "elsif", E: []*E{g.cond(2)}, Body: g.block(depth+1, 0)})
		}
	}
	if g.pick("else", 2) == 0 {
		n.Cl = append(n.Cl, &Clause{T: "else", Body: g.block(depth+1, 0)})
	}
	return n
}

func (g *genv) caseNode(depth int) *N {
	k := []gkind{gInt, gStr, gInt}[g.pick("ckind", 3)]
	n := &N{T: "case", E: g.expr(k, 1)}
	for i, c := 0, 1+g.pick("whens", 3); i < c; i++ {
		cl := &Clause{T: "when"}
		for j, m := 0, 1+g.pick("wvals", 2); j < m; j++ {
			cl.E = append(cl.E, g.plain(k))
		}
		cl.Body = g.block(depth+1, 0)
		n.Cl = append(n.Cl, cl)
	}
	if g.pick("else", 2) == 0 {
		n.Cl = append(n.Cl, &Clause{T: "else", Body: g.block(depth+1, 0)})
	}
	return n
}

func (g *genv) loopNode(depth int, tag string) *N {
	vname := []string{"i", "j", "it", "n", "s"}[g.pick("lvar", 5)]
	if g.p.TypedNames && (vname == "n" || vname == "s") {
		vname = "it"
	}
	n := &N{T: tag, S: vname}
	var elemKind gkind
	switch c := g.pick("coll", 10); {
	case c < 3:
		n.E = RangeE(g.smallInt(), g.smallInt())
		elemKind = gInt
	case c < 6:
		n.E = g.expr(gArrInt, 1)
		elemKind = gInt
	case c < 8:
		n.E = g.expr(gArrStr, 1)
		elemKind = gStr
	case c == 8:
		if g.p.MapLoops {
			n.E = Var("m")
			elemKind = gArrMix
		} else {
			n.E = Var("x")
			elemKind = gArrMix
		}
	default:
		n.E = Var([]string{"nl", "z", "r"}[g.pick("odd", 3)])
		elemKind = gNil
		if n.E.N == "r" {
			elemKind = gMap
		}
	}
	n.Rev = g.pick("rev", 4) == 0
	if g.pick("off", 4) == 0 {
		n.Off = g.modArg()
	}
	if g.pick("lim", 4) == 0 {
		n.Lim = g.modArg()
	}
	if tag == "tablerow" && g.pick("cols", 2) == 0 {
		n.Cols = LInt(int64(1 + g.pick("colsv", 3)))
	}
	oldKind, had := g.vars[vname]
	g.vars[vname] = elemKind
	g.inLoop++
	g.anyLoop++
	n.Body = g.block(depth+1, 1)
	g.anyLoop--
	g.inLoop--
	if had {
		g.vars[vname] = oldKind
	} else {
		delete(g.vars, vname)
	}
	if tag == "for" && g.pick("lelse", 3) == 0 {
		n.Cl = append(n.Cl, &Clause{T: "else", Body: g.block(depth+1, 0)})
	}
	return n
}

func (g *genv) modArg() *E {
	if !g.p.NumPrint && g.pick("modvar", 3) == 0 {
		return Var([]string{"n", "k"}[g.pick("mv", 2)])
	}
	return LInt(int64(g.pick("modlit", 5)))
}

func (g *genv) smallInt() *E {
	if !g.p.NumPrint && g.pick("rv", 4) == 0 {
		return Var([]string{"n", "k"}[g.pick("rvv", 2)])
	}
	return LInt(int64(g.pick("rl", 7) - 1))
}

func (g *genv) cycle() *N {
	n := &N{T: "cycle"}
	lists := [][]string{{"a", "b"}, {"1", "2", "3"}, {"x"}}
	// one value list per group, so that the round-robin position is well defined
	switch g.pick("cg", 3) {
	case 0:
		n.Vals = lists[0]
	case 1:
		grp := "g1"
		n.G, n.Vals = &grp, lists[1]
	default:
		grp := "g2"
		n.G, n.Vals = &grp, lists[2]
	}
	return n
}

func (g *genv) jump(depth int) *N {
	j := &N{T: []string{"break", "continue"}[g.pick("jk", 2)]}
	if g.p.BareJumps && g.pick("bare", 3) == 0 {
		return j // directly in the loop body
	}
	return &N{T: "if", E: g.cond(1), Body: []*N{j}}
}

// plain draws a filter-free expression of the kind (usable as comparison operand / when value).
func (g *genv) plain(k gkind) *E { return g.exprD(k, 1, true) }

// expr draws an expression of the kind.
func (g *genv) expr(k gkind, depth int) *E { return g.exprD(k, depth, false) }

// printable draws an expression whose value prints in a specified way.
func (g *genv) printable(depth int) *E {
	kinds := []gkind{gInt, gStr, gBool, gInt, gStr, gNil, gNum, gFloat}
	k := kinds[g.pick("pk", len(kinds))]
	if g.p.NoArith && k == gNum {
		k = gInt
	}
	e := g.expr(k, depth)
	if k == gBool && e.T != "cmp" && e.T != "bool" && e.T != "lit" {
		// a bare value used as a condition is fine, but printing it is a different matter
		// (it may be a map or an array): print its truth value instead
		e = BoolE("and", e, LBool(true))
	}
	return e
}

func (g *genv) lit(k gkind) *E {
	switch k {
	case gInt:
		return LInt(int64(g.pick("li", 12) - 2))
	case gStr:
		e := LStr(rapid.SampledFrom(litPool).Draw(g.t, "ls"))
		e.Q = g.pick("q", 2) == 0
		return e
	case gBool:
		return LBool(g.pick("lb", 2) == 0)
	case gFloat:
		return Lit(SFloat(float64(g.pick("lf", 20)-4) / 4))
	}
	return LNil()
}

func (g *genv) exprD(k gkind, depth int, plain bool) *E {
	vars := g.varsOf(k)
	leaf := func() *E {
		if len(vars) > 0 && g.pick("usevar", 3) > 0 {
			return Var(vars[g.pick("var", len(vars))])
		}
		switch k {
		case gInt, gStr, gBool, gFloat, gNil:
			return g.lit(k)
		case gNum:
			return g.lit(gInt)
		case gArrInt:
			return Var("a")
		case gArrStr:
			return Var("w")
		case gArrMix:
			return Var("x")
		case gMap:
			return Var("m")
		case gArrMap:
			return Var("r")
		}
		return LNil()
	}
	if depth <= 0 {
		return leaf()
	}
	type opt func() *E
	var opts []opt
	opts = append(opts, leaf, leaf)
	switch k {
	case gInt:
		opts = append(opts,
			func() *E { return g.idx(g.exprD(gArrInt, depth-1, true), g.indexArg()) },
			func() *E {
				key := []string{"a", "b", "c", "size"}[g.pick("mk", 4)]
				if !g.p.PlainPunct && g.pick("br", 3) == 0 {
					return PropBr(Var("m"), key)
				}
				return Prop(Var("m"), key)
			},
			func() *E { return Prop(g.exprD(gArrInt, depth-1, true), "size") },
			func() *E {
				return Prop(g.exprD(gArrInt, depth-1, true), []string{"first", "last"}[g.pick("fl", 2)])
			},
		)
		if g.p.OrdMap {
			opts = append(opts, func() *E {
				key := []string{"a", "b", "zz", "size"}[g.pick("msk", 4)]
				if g.pick("msbr", 2) == 0 {
					return PropBr(Var("ms"), key)
				}
				return Prop(Var("ms"), key)
			})
		}
		if !plain && g.p.Filters {
			opts = append(opts,
				func() *E {
					return Flt(g.exprD([]gkind{gArrInt, gArrStr, gStr}[g.pick("szk", 3)], depth-1, false), "size")
				},
				func() *E { return Flt(g.exprD(gArrInt, depth-1, false), []string{"first", "last"}[g.pick("fl", 2)]) },
			)
		}
	case gNum:
		if !plain && g.p.Failing && g.p.Filters {
			// fails exactly when the divisor (a binding, or a loop variable) is zero
			opts = append(opts, func() *E {
				return Flt(LInt(6), "divided_by", g.exprD(gInt, 0, true))
			})
		}
		if !plain && g.p.Filters {
			opts = append(opts, func() *E {
				return Flt(g.exprD(gInt, depth-1, false), []string{"plus", "minus", "times"}[g.pick("ar", 3)], g.plain(gInt))
			})
		}
	case gStr:
		opts = append(opts,
			func() *E { return g.idx(g.exprD(gArrStr, depth-1, true), g.indexArg()) },
			func() *E { return Prop(g.idx(Var("r"), g.indexArg()), "v") },
		)
		if !plain && g.p.Filters {
			opts = append(opts,
				func() *E {
					return Flt(g.exprD(gStr, depth-1, false), []string{"upcase", "downcase", "strip", "lstrip", "rstrip"}[g.pick("sf", 5)])
				},
				func() *E {
					if g.noGrowth {
						return leaf()
					}
					return Flt(g.exprD(gStr, depth-1, false), []string{"append", "prepend"}[g.pick("ap", 2)], g.plain([]gkind{gStr, gInt}[g.pick("apk", 2)]))
				},
				func() *E {
					if g.noGrowth {
						return leaf()
					}
					arr := g.exprD([]gkind{gArrInt, gArrStr, gArrMix}[g.pick("jk", 3)], depth-1, false)
					if g.pick("sep", 2) == 0 {
						return Flt(arr, "join")
					}
					return Flt(arr, "join", LStr([]string{",", "", "-", ", "}[g.pick("sepv", 4)]))
				},
			)
		}
	case gBool:
		if plain {
			// comparison operands are plain expressions: a condition must be parenthesised
			if g.pick("pb", 2) == 0 {
				return leaf()
			}
			return Paren(g.cond(depth - 1))
		}
		return g.cond(depth)
	case gArrInt, gArrStr, gArrMix:
		if !plain && g.p.Filters {
			opts = append(opts,
				func() *E { return Flt(g.exprD(k, depth-1, false), "reverse") },
				func() *E { return Flt(g.exprD(k, depth-1, false), "uniq") },
				func() *E {
					if g.noGrowth {
						return leaf()
					}
					return Flt(g.exprD(k, depth-1, false), "concat", g.exprD(k, 0, true))
				},
			)
			if k != gArrMix {
				opts = append(opts, func() *E { return Flt(g.exprD(k, depth-1, false), "sort") })
			} else {
				opts = append(opts, func() *E { return Flt(g.exprD(k, depth-1, false), "compact") })
			}
			if k == gArrStr {
				opts = append(opts, func() *E { return Flt(Var("r"), "map", LStr("v")) })
			}
			if k == gArrInt && g.p.OrdMap {
				opts = append(opts, func() *E { return Flt(Flt(Var("rn"), "sort", LStr("w")), "map", LStr("id")) })
			}
		}
	}
	return opts[g.pick("eopt", len(opts))]()
}

// idx builds x[i] unless brackets are off limits, in which case x.first stands in.
func (g *genv) idx(x, i *E) *E {
	if g.p.PlainPunct {
		return Prop(x, "first")
	}
	return Idx(x, i)
}

func (g *genv) indexArg() *E {
	ix := g.pick("ix", 6)
	if g.p.NumPrint && ix == 0 {
		ix = 2
	}
	switch ix {
	case 0:
		return Var([]string{"n", "k"}[g.pick("ixv", 2)])
	case 1:
		return LInt(int64(-1 - g.pick("neg", 3)))
	default:
		return LInt(int64(g.pick("ixl", 5)))
	}
}

// cond draws a condition.
func (g *genv) cond(depth int) *E {
	type opt func() *E
	opts := []opt{
		func() *E {
			k := []gkind{gInt, gInt, gStr, gFloat}[g.pick("ck", 4)]
			ops := []string{"==", "!=", "<", ">", "<=", ">="}
			if g.p.PlainPunct {
				ops = ops[:2]
			}
			return Cmp(ops[g.pick("op", len(ops))], g.plain(k), g.plain(k))
		},
		func() *E { // cross-kind equality
			ks := []gkind{gInt, gStr, gNil, gBool, gFloat}
			return Cmp([]string{"==", "!="}[g.pick("eq", 2)], g.plain(ks[g.pick("k1", len(ks))]), g.plain(ks[g.pick("k2", len(ks))]))
		},
		func() *E { // truthiness of an arbitrary value
			ks := []gkind{gInt, gStr, gNil, gBool, gArrInt, gArrStr, gMap}
			return g.plain(ks[g.pick("tk", len(ks))])
		},
		func() *E {
			switch g.pick("cont", 3) {
			case 0:
				return Cmp("contains", g.plain(gStr), g.plain(gStr))
			case 1:
				return Cmp("contains", g.plain(gArrInt), g.plain(gInt))
			default:
				return Cmp("contains", Var("m"), LStr([]string{"a", "b", "zz"}[g.pick("mkey", 3)]))
			}
		},
	}
	if g.p.Ticks {
		// a counting filter: the number of evaluations shows which conditions were evaluated
		opts = append(opts, func() *E {
			ks := []gkind{gInt, gStr, gNil, gBool, gArrInt}
			return Flt(g.plain(ks[g.pick("tkk", len(ks))]), "tick")
		})
	}
	if g.p.Failing && g.pick("failing", 4) == 0 {
		opts = append(opts, func() *E { return Flt(g.plain(gInt), "fail") }, func() *E { return Flt(g.plain(gInt), "divided_by", LInt(0)) })
	}
	if depth > 0 {
		opts = append(opts, func() *E {
			op := []string{"and", "or"}[g.pick("bop", 2)]
			l, r := g.cond(depth-1), g.cond(depth-1)
			// mixed and/or chains are fully parenthesised; a Bool on the right is always parenthesised
			if l.T == "bool" && l.N != op {
				l = Paren(l)
			}
			if r.T == "bool" {
				r = Paren(r)
			}
			return BoolE(op, l, r)
		})
		if g.p.Filters {
			opts = append(opts, func() *E {
				fops := []string{"==", ">", "<"}
				if g.p.PlainPunct {
					fops = fops[:1]
				}
				return Cmp(fops[g.pick("fop", len(fops))], Paren(Flt(g.exprD(gArrInt, 0, true), "size")), g.plain(gInt))
			})
		}
	}
	return opts[g.pick("copt", len(opts))]()
}

// GenSpacing draws a spacing policy sequence (empty = conventional).
func GenSpacing(t *rapid.T, label string) []int {
	if rapid.IntRange(0, 2).Draw(t, label+"mode") == 0 {
		return nil
	}
	return rapid.SliceOfN(rapid.IntRange(0, 5), 1, 12).Draw(t, label)
}

// Describe gives a short description of a program for samples.
func (p *Program) Describe() map[string]any {
	return map[string]any{"template": p.Source(), "bindings": fmt.Sprint(p.Binds.Logical())}
}

// GenCond draws a stand-alone condition over the standard bindings.
func GenCond(t *rapid.T, p Profile, depth int) *E {
	g := &genv{t: t, p: p, vars: baseVars(), budget: 8}
	return g.cond(depth)
}

// ---- lookup paths over generated nested bindings (C08) ----

// GenNested draws a nested value of maps and arrays (depth <= 3) with scalar leaves.
func GenNested(t *rapid.T, depth int) *Spec {
	k := rapid.IntRange(0, 9).Draw(t, "nk")
	if depth == 0 || k < 4 {
		switch k % 5 {
		case 0:
			return SInt(int64(rapid.IntRange(-3, 9).Draw(t, "ni")))
		case 1:
			return SStr(rapid.SampledFrom(strPool).Draw(t, "ns"))
		case 2:
			return SNil()
		case 3:
			return SBool(rapid.Bool().Draw(t, "nb"))
		default:
			return SFloat(float64(rapid.IntRange(-4, 12).Draw(t, "nf")) / 4)
		}
	}
	if k < 7 {
		a := SArr()
		for i, n := 0, rapid.IntRange(0, 4).Draw(t, "alen"); i < n; i++ {
			a.E = append(a.E, GenNested(t, depth-1))
		}
		return a
	}
	m := SMap()
	keys := rapid.Permutation([]string{"a", "b", "c", "size", "first", "x-y"}).Draw(t, "mkeys")
	for _, key := range keys[:rapid.IntRange(0, 4).Draw(t, "mlen")] {
		m.Keys = append(m.Keys, key)
		m.E = append(m.E, GenNested(t, depth-1))
	}
	return m
}

// GenPath draws a lookup path starting at variable root: property (dot or
// bracket spelling), index (valid, negative, out of range, non-integer) steps.
// Steps follow the actual structure of v most of the time, so that deep values
// are reached, and go astray sometimes, so that nil appears mid-path.
func GenPath(t *rapid.T, root string, v *Spec, maxSteps int) *E {
	e := Var(root)
	cur := v
	for i, n := 0, rapid.IntRange(1, maxSteps).Draw(t, "steps"); i < n; i++ {
		astray := rapid.IntRange(0, 5).Draw(t, "astray") == 0
		switch {
		case cur != nil && cur.K == "arr" && !astray:
			switch rapid.IntRange(0, 5).Draw(t, "astep") {
			case 0:
				e, cur = Prop(e, "size"), SInt(int64(len(cur.E)))
			case 1:
				e = Prop(e, "first")
				if len(cur.E) > 0 {
					cur = cur.E[0]
				} else {
					cur = nil
				}
			case 2:
				e = Prop(e, "last")
				if len(cur.E) > 0 {
					cur = cur.E[len(cur.E)-1]
				} else {
					cur = nil
				}
			default:
				ix := rapid.IntRange(-len(cur.E)-1, len(cur.E)).Draw(t, "ix")
				e = Idx(e, LInt(int64(ix)))
				j := ix
				if j < 0 {
					j += len(cur.E)
				}
				if j >= 0 && j < len(cur.E) {
					cur = cur.E[j]
				} else {
					cur = nil
				}
			}
		case cur != nil && cur.K == "map" && !astray && len(cur.Keys) > 0:
			j := rapid.IntRange(0, len(cur.Keys)-1).Draw(t, "key")
			key := cur.Keys[j]
			switch rapid.IntRange(0, 2).Draw(t, "spell") {
			case 0:
				e = Prop(e, key)
			case 1:
				e = PropBr(e, key)
			default:
				e = Idx(e, LStr(key))
			}
			cur = cur.E[j]
		default:
			switch rapid.IntRange(0, 6).Draw(t, "odd") {
			case 0:
				e = Prop(e, rapid.SampledFrom([]string{"size", "first", "last", "nokey", "a"}).Draw(t, "oddp"))
			case 1:
				e = PropBr(e, rapid.SampledFrom([]string{"size", "first", "nokey", "a"}).Draw(t, "oddb"))
			case 2:
				e = Idx(e, LInt(int64(rapid.IntRange(-7, 7).Draw(t, "oddi"))))
			case 3:
				e = Idx(e, Lit(SFloat(1.5)))
			case 4:
				e = Idx(e, rapid.SampledFrom([]*E{LNil(), LBool(true), LStr("x"), Var("a"), Var("zz")}).Draw(t, "oddx"))
			default:
				e = Idx(e, Var("n"))
			}
			cur = nil
		}
	}
	return e
}

// GenPrintable draws a printable expression over the standard bindings.
func GenPrintable(t *rapid.T, p Profile, depth int) *E {
	g := &genv{t: t, p: p, vars: baseVars(), budget: 8}
	return g.printable(depth)
}
