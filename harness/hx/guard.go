package hx

import (
	"fmt"
	"regexp"
	"runtime"
	"strings"
)

// PanicInfo describes a panic that escaped from the code under test.
type PanicInfo struct {
	Value string // printed panic value (first line, truncated)
	Site  string // first function inside the liquid module on the panicking stack
}

func (p *PanicInfo) String() string { return fmt.Sprintf("panic at %s: %s", p.Site, p.Value) }

const liquidMod = "github.com/osteele/liquid"

// frames that only re-raise and therefore do not identify the defect
var skipFrames = []string{
	"/expressions.expression.Evaluate.func1",
	"/expressions.parse.func1",
	"/expressions.(*expression).Evaluate.func1",
}

var stackFuncRe = regexp.MustCompile(`(?m)^(github\.com/osteele/liquid[^\s(]*(?:\([^)]*\))?[^\s(]*)\(`)

// Guard runs fn and reports a panic instead of propagating it.
func Guard(fn func()) (pi *PanicInfo) {
	defer func() {
		if r := recover(); r != nil {
			pi = classifyPanic(r)
		}
	}()
	fn()
	return nil
}

func shortFunc(name string) string {
	name = strings.TrimPrefix(name, liquidMod)
	name = strings.TrimPrefix(name, "/")
	if name == "" || name[0] == '.' {
		name = "liquid" + name
	}
	return name
}

func classifyPanic(r any) *PanicInfo {
	val := fmt.Sprint(r)
	site := ""
	// A panic re-raised by expressions.Evaluate carries the original stack as text.
	if i := strings.Index(val, "Original stacktrace:"); i >= 0 {
		text := val[i:]
		// skip everything up to the runtime's panic frame
		if j := strings.Index(text, "panic("); j >= 0 {
			text = text[j:]
		}
		for _, m := range stackFuncRe.FindAllStringSubmatch(text, -1) {
			fn := m[1]
			if skipped(fn) {
				continue
			}
			site = shortFunc(fn)
			break
		}
		val = strings.TrimSpace(val[:i])
	}
	if site == "" {
		pcs := make([]uintptr, 64)
		n := runtime.Callers(3, pcs)
		frames := runtime.CallersFrames(pcs[:n])
		seenPanic := false
		for {
			f, more := frames.Next()
			if f.Function == "runtime.gopanic" || strings.HasPrefix(f.Function, "runtime.panic") || f.Function == "runtime.goPanicIndex" {
				seenPanic = true
			} else if seenPanic && strings.HasPrefix(f.Function, liquidMod) && !skipped(f.Function) {
				site = shortFunc(f.Function)
				break
			}
			if !more {
				break
			}
		}
		if site == "" {
			site = "unknown"
		}
	}
	if i := strings.IndexByte(val, '\n'); i >= 0 {
		val = val[:i]
	}
	if len(val) > 200 {
		val = val[:200]
	}
	return &PanicInfo{Value: val, Site: site}
}

func skipped(fn string) bool {
	for _, s := range skipFrames {
		if strings.HasSuffix(fn, s) {
			return true
		}
	}
	return false
}
