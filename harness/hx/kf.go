package hx

import (
	"bufio"
	"os"
	"path/filepath"
	"strings"
)

// A Finding is one `finding:` line of KNOWN_FINDINGS.txt: a genuine defect that
// is recorded instead of repaired. It is matched by property + check + the
// structural signature of the failure, never by property alone.
type Finding struct {
	Property string
	ID       string
	Check    string // "" matches any check of the property
	Sig      string
	Text     string
}

// Root returns the /verif directory.
func Root() string {
	if r := os.Getenv("VERIF_ROOT"); r != "" {
		return r
	}
	return "/verif"
}

// LoadFindings reads the `finding:` lines for one property. `fixed:` lines
// suppress nothing and are ignored here.
func LoadFindings(property string) []Finding {
	f, err := os.Open(filepath.Join(Root(), "KNOWN_FINDINGS.txt"))
	if err != nil {
		return nil
	}
	defer f.Close()
	var out []Finding
	sc := bufio.NewScanner(f)
	sc.Buffer(make([]byte, 1<<20), 1<<20)
	for sc.Scan() {
		line := strings.TrimSpace(sc.Text())
		if !strings.HasPrefix(line, "finding:") {
			continue
		}
		line = strings.TrimSpace(strings.TrimPrefix(line, "finding:"))
		head, text, _ := strings.Cut(line, "::")
		fd := Finding{Text: strings.TrimSpace(text)}
		for _, kv := range strings.Fields(head) {
			k, v, ok := strings.Cut(kv, "=")
			if !ok {
				continue
			}
			switch k {
			case "property":
				fd.Property = v
			case "id":
				fd.ID = v
			case "check":
				fd.Check = v
			case "sig":
				fd.Sig = v
			}
		}
		if fd.Property == property && fd.Sig != "" {
			out = append(out, fd)
		}
	}
	return out
}

// MatchFinding reports the id of the listed finding that v is an instance of.
func MatchFinding(fs []Finding, v Violation) (string, bool) {
	for _, f := range fs {
		if f.Property == v.Property && (f.Check == "" || f.Check == v.Check) && f.Sig == v.Sig {
			return f.ID, true
		}
	}
	return "", false
}
