package hx

import (
	"fmt"

	"github.com/osteele/liquid"
)

// Outcome is what one parse+render through the public API produced.
type Outcome struct {
	Out      string
	Err      liquid.SourceError // nil on success
	Panic    *PanicInfo
	ParseErr bool // the error came from parsing
}

// OK reports a successful render.
func (o Outcome) OK() bool { return o.Panic == nil && o.Err == nil }

// Failed reports a clean error (no panic).
func (o Outcome) Failed() bool { return o.Panic == nil && o.Err != nil }

// Kind summarises the outcome class.
func (o Outcome) Kind() string {
	switch {
	case o.Panic != nil:
		return "panic"
	case o.Err != nil && o.ParseErr:
		return "parse-error"
	case o.Err != nil:
		return "render-error"
	default:
		return "ok"
	}
}

func (o Outcome) String() string {
	switch {
	case o.Panic != nil:
		return o.Panic.String()
	case o.Err != nil:
		return "error: " + o.Err.Error()
	default:
		return fmt.Sprintf("ok: %q", o.Out)
	}
}

// Same reports whether two outcomes are the same result for the purposes of a
// metamorphic relation: equal output bytes, or both failing.
func (o Outcome) Same(p Outcome) bool {
	if o.Panic != nil || p.Panic != nil {
		return false
	}
	if (o.Err == nil) != (p.Err == nil) {
		return false
	}
	return o.Err != nil || o.Out == p.Out
}

// Render parses and renders src with a fresh default engine.
func Render(src string, b map[string]any) Outcome {
	return RenderWith(liquid.NewEngine(), src, b)
}

// RenderWith parses and renders src on the given engine.
func RenderWith(e *liquid.Engine, src string, b map[string]any) (o Outcome) {
	o.Panic = Guard(func() {
		tpl, err := e.ParseString(src)
		if err != nil {
			o.Err, o.ParseErr = err, true
			return
		}
		out, err := tpl.RenderString(b)
		if err != nil {
			o.Err = err
			o.Out = out
			return
		}
		o.Out = out
	})
	return o
}

// RenderAt parses with a location and renders.
func RenderAt(e *liquid.Engine, src, path string, line int, b map[string]any) (o Outcome) {
	o.Panic = Guard(func() {
		tpl, err := e.ParseTemplateLocation([]byte(src), path, line)
		if err != nil {
			o.Err, o.ParseErr = err, true
			return
		}
		out, err := tpl.RenderString(b)
		if err != nil {
			o.Err = err
			o.Out = out
			return
		}
		o.Out = out
	})
	return o
}
