package hx

import (
	"bytes"
	"fmt"
	"hash/fnv"

	"github.com/osteele/liquid"
)

// Outcome is what one parse+render through the public API produced.
type Outcome struct {
	Out      string
	Err      liquid.SourceError // nil on success
	Panic    *PanicInfo
	ParseErr bool // the error came from parsing
}

// OK reports a successful render.
func (o Outcome) OK() bool { return o.Panic == nil && o.Err == nil }

// Failed reports a clean error (no panic).
func (o Outcome) Failed() bool { return o.Panic == nil && o.Err != nil }

// Kind summarises the outcome class.
func (o Outcome) Kind() string {
	switch {
	case o.Panic != nil:
		return "panic"
	case o.Err != nil && o.ParseErr:
		return "parse-error"
	case o.Err != nil:
		return "render-error"
	default:
		return "ok"
	}
}

func (o Outcome) String() string {
	switch {
	case o.Panic != nil:
		return o.Panic.String()
	case o.Err != nil:
		return "error: " + o.Err.Error()
	default:
		return fmt.Sprintf("ok: %q", o.Out)
	}
}

// Same reports whether two outcomes are the same result for the purposes of a
// metamorphic relation: equal output bytes, or both failing.
func (o Outcome) Same(p Outcome) bool {
	if o.Panic != nil || p.Panic != nil {
		return false
	}
	if (o.Err == nil) != (p.Err == nil) {
		return false
	}
	return o.Err != nil || o.Out == p.Out
}

// Render parses and renders src with a fresh default engine.
func Render(src string, b map[string]any) Outcome {
	return RenderWith(liquid.NewEngine(), src, b)
}

// RenderWith parses and renders src on the given engine. The public entry
// points are interchangeable (C02), so which pair is used is a deterministic
// function of the source: every check exercises all of them over its cases.
func RenderWith(e *liquid.Engine, src string, b map[string]any) (o Outcome) {
	h := fnv.New32a()
	h.Write([]byte(src))
	variant := h.Sum32() % 5
	o.Panic = Guard(func() {
		if variant == 4 {
			out, err := e.ParseAndRenderString(src, b)
			o.Out, o.Err = out, err
			if err != nil {
				// tell parse errors from render errors the slow way
				if _, perr := e.ParseString(src); perr != nil {
					o.ParseErr = true
				}
			}
			return
		}
		var tpl *liquid.Template
		var err liquid.SourceError
		buf := []byte(src)
		switch variant {
		case 0:
			tpl, err = e.ParseString(src)
		case 1:
			tpl, err = e.ParseTemplate(buf)
		default:
			tpl, err = e.ParseTemplateLocation(buf, "", 0)
		}
		// the caller's buffer is the caller's: overwriting it after the parse must not matter
		for i := range buf {
			buf[i] = '#'
		}
		if err != nil {
			o.Err, o.ParseErr = err, true
			return
		}
		switch variant {
		case 0:
			o.Out, o.Err = tpl.RenderString(b)
		case 1, 2:
			out, rerr := tpl.Render(b)
			o.Out, o.Err = string(out), rerr
		default:
			var buf bytes.Buffer
			rerr := tpl.FRender(&buf, b)
			o.Err = rerr
			if rerr == nil {
				o.Out = buf.String()
			}
		}
	})
	return o
}

// RenderAt parses with a location and renders.
func RenderAt(e *liquid.Engine, src, path string, line int, b map[string]any) (o Outcome) {
	o.Panic = Guard(func() {
		tpl, err := e.ParseTemplateLocation([]byte(src), path, line)
		if err != nil {
			o.Err, o.ParseErr = err, true
			return
		}
		out, err := tpl.RenderString(b)
		if err != nil {
			o.Err = err
			o.Out = out
			return
		}
		o.Out = out
	})
	return o
}
