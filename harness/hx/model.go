package hx

import (
	"fmt"
	"math"
	"math/big"
	"sort"
	"strconv"
	"strings"
	"unicode"
	"unicode/utf8"
)

// ---- reference semantics, three-valued ----
//
// Every evaluation returns a value together with a status: StOK (the listed
// properties determine the result), StErr (they require an error) or StUnspec
// (they are silent). Unspecified propagates: nothing is asserted about a
// render whose expected output is not fully specified.

type Status int

const (
	StOK Status = iota
	StErr
	StUnspec
)

// MapRef is how the model represents a map value: the logical content plus an
// identity, so that `m == m` (same map) can be told from two different maps.
type MapRef struct {
	M  map[string]any
	ID int
}

// Model evaluates harness ASTs over logical values.
type Model struct {
	Vars    map[string]any
	out     strings.Builder
	loops   []*loopFrame
	Why     string // first reason for an Unspecified / Err verdict
	Strict  bool
	nextID  int
	Ticks   int // evaluated `tick` filters (C10: conditions after the chosen branch are not evaluated), short-circuiting and/or
	TicksHi int // the same when and/or evaluate both operands (the statement allows either)
	skipLo  int
	Steps   int
	MaxStep int
}

type loopFrame struct {
	cycles   map[string]int
	cycleSig map[string]string
}

type ctrl int

const (
	cNone ctrl = iota
	cBreak
	cContinue
)

// NewModel creates a model over the logical bindings.
func NewModel(vars map[string]any) *Model {
	m := &Model{Vars: map[string]any{}, MaxStep: 200000}
	for k, v := range vars {
		m.Vars[k] = m.intern(v)
	}
	return m
}

// intern wraps maps in MapRefs (recursively) so they have identity.
func (m *Model) intern(v any) any {
	switch x := v.(type) {
	case map[string]any:
		m.nextID++
		r := &MapRef{M: make(map[string]any, len(x)), ID: m.nextID}
		keys := make([]string, 0, len(x))
		for k := range x {
			keys = append(keys, k)
		}
		sort.Strings(keys)
		for _, k := range keys {
			r.M[k] = m.intern(x[k])
		}
		return r
	case []any:
		out := make([]any, len(x))
		for i, e := range x {
			out[i] = m.intern(e)
		}
		return out
	case int:
		return int64(x)
	}
	return v
}

func (m *Model) why(st Status, format string, a ...any) Status {
	if m.Why == "" {
		m.Why = fmt.Sprintf(format, a...)
	}
	return st
}

// Render evaluates the nodes and returns the expected output.
func (m *Model) Render(nodes []*N) (string, Status) {
	c, st := m.seq(nodes)
	if st != StOK {
		return "", st
	}
	if c != cNone {
		return "", m.why(StUnspec, "break/continue outside a loop")
	}
	return m.out.String(), StOK
}

func (m *Model) seq(nodes []*N) (ctrl, Status) {
	for _, n := range nodes {
		c, st := m.node(n)
		if st != StOK || c != cNone {
			return c, st
		}
	}
	return cNone, StOK
}

func truthy(v any) bool {
	if v == nil {
		return false
	}
	if b, ok := v.(bool); ok {
		return b
	}
	return true
}

func (m *Model) node(n *N) (ctrl, Status) {
	m.Steps++
	if m.Steps > m.MaxStep {
		return cNone, m.why(StUnspec, "model step budget")
	}
	switch n.T {
	case "text", "raw":
		m.out.WriteString(n.S)
	case "comment":
	case "obj":
		v, st := m.Eval(n.E)
		if st != StOK {
			return cNone, st
		}
		if v == nil && m.Strict {
			return cNone, StErr
		}
		s, st := m.Print(v)
		if st != StOK {
			return cNone, st
		}
		m.out.WriteString(s)
	case "assign":
		v, st := m.Eval(n.E)
		if st != StOK {
			return cNone, st
		}
		m.Vars[n.S] = v
	case "capture":
		saved := m.out
		m.out = strings.Builder{}
		c, st := m.seq(n.Body)
		body := m.out.String()
		m.out = saved
		if st != StOK {
			return cNone, st
		}
		if c != cNone {
			// a break/continue leaving a capture body: the statement does not say what is captured
			return cNone, m.why(StUnspec, "break/continue inside capture")
		}
		m.Vars[n.S] = body
	case "if", "unless":
		v, st := m.Eval(n.E)
		if st != StOK {
			return cNone, st
		}
		t := truthy(v)
		if n.T == "unless" {
			t = !t
		}
		if t {
			return m.seq(n.Body)
		}
		for _, cl := range n.Cl {
			if cl.T == "elsif" {
				v, st := m.Eval(cl.E[0])
				if st != StOK {
					return cNone, st
				}
				if truthy(v) {
					return m.seq(cl.Body)
				}
			} else {
				return m.seq(cl.Body)
			}
		}
	case "case":
		subj, st := m.Eval(n.E)
		if st != StOK {
			return cNone, st
		}
		for _, cl := range n.Cl {
			if cl.T == "else" {
				return m.seq(cl.Body)
			}
			for _, e := range cl.E {
				v, st := m.Eval(e)
				if st != StOK {
					return cNone, st
				}
				eq, st := m.Equal(subj, v)
				if st != StOK {
					return cNone, st
				}
				if eq {
					return m.seq(cl.Body)
				}
			}
		}
	case "for", "tablerow":
		return m.loop(n)
	case "break":
		if len(m.loops) == 0 {
			return cNone, m.why(StUnspec, "break outside a loop")
		}
		return cBreak, StOK
	case "continue":
		if len(m.loops) == 0 {
			return cNone, m.why(StUnspec, "continue outside a loop")
		}
		return cContinue, StOK
	case "cycle":
		if len(m.loops) == 0 {
			return cNone, m.why(StUnspec, "cycle outside a loop")
		}
		f := m.loops[len(m.loops)-1]
		g := ""
		if n.G != nil {
			g = *n.G
		}
		sig := strings.Join(n.Vals, "\x00")
		if old, ok := f.cycleSig[g]; ok && old != sig {
			return cNone, m.why(StUnspec, "two cycle tags of one group with different value lists")
		}
		f.cycleSig[g] = sig
		k := f.cycles[g]
		f.cycles[g] = k + 1
		m.out.WriteString(n.Vals[k%len(n.Vals)])
	default:
		return cNone, m.why(StUnspec, "node %s is not modelled", n.T)
	}
	return cNone, StOK
}

func (m *Model) intArg(e *E, name string) (int64, bool, Status) {
	if e == nil {
		return 0, false, StOK
	}
	v, st := m.Eval(e)
	if st != StOK {
		return 0, false, st
	}
	i, ok := v.(int64)
	if !ok {
		return 0, false, m.why(StUnspec, "%s is not an integer", name)
	}
	if i < 0 {
		return 0, false, m.why(StUnspec, "negative %s", name)
	}
	return i, true, StOK
}

func (m *Model) loop(n *N) (ctrl, Status) {
	coll, st := m.Eval(n.E)
	if st != StOK {
		return cNone, st
	}
	var items []any
	switch c := coll.(type) {
	case nil:
	case []any:
		items = c
	case Rng:
		if c.B-c.A > 100000 {
			return cNone, m.why(StUnspec, "huge range")
		}
		for i := c.A; i <= c.B; i++ {
			items = append(items, i)
		}
	case *MapRef:
		if len(c.M) > 1 {
			return cNone, m.why(StUnspec, "iteration order of a map with several entries")
		}
		for k, v := range c.M {
			items = append(items, []any{k, v})
		}
	default:
		return cNone, m.why(StUnspec, "loop over a %T", coll)
	}
	if n.Rev {
		r := make([]any, len(items))
		for i, x := range items {
			r[len(items)-1-i] = x
		}
		items = r
	}
	off, has, st := m.intArg(n.Off, "offset")
	if st != StOK {
		return cNone, st
	}
	if has {
		if off > int64(len(items)) {
			off = int64(len(items))
		}
		items = items[off:]
	}
	lim, has, st := m.intArg(n.Lim, "limit")
	if st != StOK {
		return cNone, st
	}
	if has && lim < int64(len(items)) {
		items = items[:lim]
	}
	if n.Cols != nil {
		// evaluated for its errors only; the row structure is checked structurally elsewhere
		if _, _, st := m.intArg(n.Cols, "cols"); st != StOK {
			return cNone, st
		}
	}
	if len(items) == 0 {
		for _, cl := range n.Cl {
			return m.seq(cl.Body)
		}
		return cNone, StOK
	}
	oldVar, hadVar := m.Vars[n.S]
	oldLoop, hadLoop := m.Vars["forloop"]
	frame := &loopFrame{cycles: map[string]int{}, cycleSig: map[string]string{}}
	m.loops = append(m.loops, frame)
	restore := func() {
		m.loops = m.loops[:len(m.loops)-1]
		if hadVar {
			m.Vars[n.S] = oldVar
		} else {
			delete(m.Vars, n.S)
		}
		if hadLoop {
			m.Vars["forloop"] = oldLoop
		} else {
			delete(m.Vars, "forloop")
		}
	}
	l := int64(len(items))
	for i, it := range items {
		m.Vars[n.S] = it
		m.nextID++
		m.Vars["forloop"] = &MapRef{ID: m.nextID, M: map[string]any{
			"first": i == 0, "last": int64(i) == l-1, "index": int64(i + 1), "index0": int64(i),
			"rindex": l - int64(i), "rindex0": l - int64(i) - 1, "length": l,
		}}
		c, st := m.seq(n.Body)
		if st != StOK {
			restore()
			return cNone, st
		}
		if c == cBreak {
			break
		}
	}
	restore()
	return cNone, StOK
}

// Print is the reference printing of an object value.
func (m *Model) Print(v any) (string, Status) {
	switch x := v.(type) {
	case nil:
		return "", StOK
	case bool:
		return strconv.FormatBool(x), StOK
	case int64:
		return strconv.FormatInt(x, 10), StOK
	case uint64:
		return strconv.FormatUint(x, 10), StOK
	case float64:
		s := strconv.FormatFloat(x, 'g', -1, 64)
		if strings.ContainsAny(s, "eE") || math.IsNaN(x) || math.IsInf(x, 0) || (x == 0 && math.Signbit(x)) {
			return "", m.why(StUnspec, "float in exponent notation / negative zero")
		}
		return s, StOK
	case string:
		return x, StOK
	}
	return "", m.why(StUnspec, "printing a %T", v)
}

// Eval evaluates an expression.
func (m *Model) Eval(e *E) (any, Status) {
	switch e.T {
	case "lit":
		return m.intern(e.V.Logical()), StOK
	case "var":
		return m.Vars[e.N], StOK
	case "paren":
		return m.Eval(e.A[0])
	case "prop":
		x, st := m.Eval(e.A[0])
		if st != StOK {
			return nil, st
		}
		return m.property(x, e.N, e.Br)
	case "idx":
		x, st := m.Eval(e.A[0])
		if st != StOK {
			return nil, st
		}
		i, st := m.Eval(e.A[1])
		if st != StOK {
			return nil, st
		}
		return m.index(x, i)
	case "range":
		a, st := m.Eval(e.A[0])
		if st != StOK {
			return nil, st
		}
		b, st := m.Eval(e.A[1])
		if st != StOK {
			return nil, st
		}
		ai, ok1 := a.(int64)
		bi, ok2 := b.(int64)
		if !ok1 || !ok2 {
			return nil, m.why(StUnspec, "range with non-integer endpoints")
		}
		return Rng{ai, bi}, StOK
	case "cmp":
		a, st := m.Eval(e.A[0])
		if st != StOK {
			return nil, st
		}
		b, st := m.Eval(e.A[1])
		if st != StOK {
			return nil, st
		}
		r, st := m.Compare(e.N, a, b)
		return r, st
	case "bool":
		a, st := m.Eval(e.A[0])
		if st != StOK {
			return nil, st
		}
		// both operands are evaluated (an error in either fails the expression);
		// the statement does not promise short-circuiting inside one expression
		skippable := truthy(a) != (e.N == "and") // a short-circuiting evaluation would not look at the right operand
		if skippable {
			m.skipLo++
		}
		b, st := m.Eval(e.A[1])
		if skippable {
			m.skipLo--
		}
		if st == StErr && skippable {
			// the right operand fails but a short-circuiting evaluation would skip it
			return nil, m.why(StUnspec, "failing right operand that short-circuiting would skip")
		}
		if st != StOK {
			return nil, st
		}
		if e.N == "and" {
			return truthy(a) && truthy(b), StOK
		}
		return truthy(a) || truthy(b), StOK
	case "filter":
		x, st := m.Eval(e.A[0])
		if st != StOK {
			return nil, st
		}
		args := make([]any, 0, len(e.A)-1)
		for _, a := range e.A[1:] {
			v, st := m.Eval(a)
			if st != StOK {
				return nil, st
			}
			args = append(args, v)
		}
		return m.Filter(e.N, x, args)
	}
	return nil, m.why(StUnspec, "expression %s is not modelled", e.T)
}

func (m *Model) property(x any, name string, bracket bool) (any, Status) {
	switch c := x.(type) {
	case nil, bool, int64, uint64, float64:
		return nil, StOK
	case string:
		if name == "size" && !bracket {
			return nil, m.why(StUnspec, "size of a string through property syntax")
		}
		return nil, StOK
	case *MapRef:
		if v, ok := c.M[name]; ok {
			return v, StOK
		}
		if name == "size" && !bracket {
			return int64(len(c.M)), StOK
		}
		return nil, StOK
	case []any:
		if bracket {
			return nil, StOK // a["first"] is an index lookup with a non-numeric index
		}
		switch name {
		case "first":
			if len(c) > 0 {
				return c[0], StOK
			}
			return nil, StOK
		case "last":
			if len(c) > 0 {
				return c[len(c)-1], StOK
			}
			return nil, StOK
		case "size":
			return int64(len(c)), StOK
		}
		return nil, StOK
	}
	return nil, m.why(StUnspec, "property of a %T", x)
}

func (m *Model) index(x, i any) (any, Status) {
	switch c := x.(type) {
	case nil, bool, int64, uint64, float64, string:
		return nil, StOK
	case []any:
		switch n := i.(type) {
		case int64:
			if n < 0 {
				n += int64(len(c))
			}
			if n >= 0 && n < int64(len(c)) {
				return c[n], StOK
			}
			return nil, StOK
		case float64, uint64:
			return nil, m.why(StUnspec, "non-int numeric array index")
		}
		return nil, StOK
	case *MapRef:
		if s, ok := i.(string); ok {
			return c.M[s], StOK
		}
		if i == nil {
			return nil, StOK
		}
		return nil, m.why(StUnspec, "map indexed by a %T", i)
	}
	return nil, m.why(StUnspec, "index of a %T", x)
}

// ---- comparison (C09) ----

func isNum(v any) bool {
	switch v.(type) {
	case int64, uint64, float64:
		return true
	}
	return false
}

func toBigFloat(v any) *big.Float {
	switch x := v.(type) {
	case int64:
		return new(big.Float).SetPrec(200).SetInt64(x)
	case uint64:
		return new(big.Float).SetPrec(200).SetUint64(x)
	case float64:
		return new(big.Float).SetPrec(200).SetFloat64(x)
	}
	return nil
}

func toF64(v any) float64 {
	switch x := v.(type) {
	case int64:
		return float64(x)
	case uint64:
		return float64(x)
	case float64:
		return x
	}
	return math.NaN()
}

// numCmp compares two numbers by value. When one side is a float and the
// other an integer that float64 cannot hold exactly, "numeric value" and the
// documented float64 join type can disagree: that is reported as unspecified.
func numCmp(a, b any) (int, bool) {
	// "compare integers and floats of any width by numeric value": exactly, also where an
	// integer beyond 2^53 meets a float
	return toBigFloat(a).Cmp(toBigFloat(b)), true
}

func kindOf(v any) string {
	switch v.(type) {
	case nil:
		return "nil"
	case bool:
		return "bool"
	case int64, uint64, float64:
		return "num"
	case string:
		return "str"
	case []any:
		return "arr"
	case *MapRef:
		return "map"
	case Rng:
		return "range"
	}
	return "other"
}

// Equal is reference equality.
func (m *Model) Equal(a, b any) (bool, Status) {
	ka, kb := kindOf(a), kindOf(b)
	if ka == "other" || kb == "other" || ka == "range" || kb == "range" {
		return false, m.why(StUnspec, "equality involving %s/%s", ka, kb)
	}
	if ka != kb {
		return false, StOK
	}
	switch ka {
	case "nil":
		return true, StOK
	case "bool":
		return a.(bool) == b.(bool), StOK
	case "num":
		c, ok := numCmp(a, b)
		if !ok {
			return false, m.why(StUnspec, "integer beyond 2^53 compared with a float")
		}
		return c == 0, StOK
	case "str":
		return a.(string) == b.(string), StOK
	case "arr":
		x, y := a.([]any), b.([]any)
		if len(x) != len(y) {
			return false, StOK
		}
		unspec := false
		for i := range x {
			eq, st := m.Equal(x[i], y[i])
			if st == StUnspec {
				unspec = true
				continue
			}
			if !eq {
				return false, StOK
			}
		}
		if unspec {
			return false, StUnspec
		}
		return true, StOK
	case "map":
		if a.(*MapRef).ID == b.(*MapRef).ID {
			return true, StOK // reflexivity
		}
		// two maps are equal when they hold the same keys with equal values, the way arrays are
		// equal element by element (a key bound to nil is a key: {a: nil} is not {b: nil}, nor {})
		x, y := a.(*MapRef).M, b.(*MapRef).M
		if len(x) != len(y) {
			return false, StOK
		}
		unspec := false
		for k, xv := range x {
			yv, ok := y[k]
			if !ok {
				return false, StOK
			}
			eq, st := m.Equal(xv, yv)
			if st == StUnspec {
				unspec = true
				continue
			}
			if !eq {
				return false, StOK
			}
		}
		if unspec {
			return false, StUnspec
		}
		return true, StOK
	}
	return false, StUnspec
}

// Less is reference ordering.
func (m *Model) Less(a, b any) (bool, Status) {
	ka, kb := kindOf(a), kindOf(b)
	if ka == "other" || kb == "other" || ka == "range" || kb == "range" {
		return false, m.why(StUnspec, "ordering involving %s/%s", ka, kb)
	}
	if ka != kb || ka == "nil" {
		return false, StOK
	}
	switch ka {
	case "num":
		c, ok := numCmp(a, b)
		if !ok {
			return false, m.why(StUnspec, "integer beyond 2^53 compared with a float")
		}
		return c < 0, StOK
	case "str":
		return a.(string) < b.(string), StOK
	}
	return false, m.why(StUnspec, "ordering of two %ss", ka)
}

// Contains is the reference `contains`.
func (m *Model) Contains(a, b any) (bool, Status) {
	switch c := a.(type) {
	case string:
		if s, ok := b.(string); ok {
			return strings.Contains(c, s), StOK
		}
		return false, m.why(StUnspec, "string contains non-string")
	case []any:
		unspec := false
		for _, e := range c {
			eq, st := m.Equal(e, b)
			if st == StUnspec {
				unspec = true
				continue
			}
			if eq {
				return true, StOK
			}
		}
		if unspec {
			return false, StUnspec
		}
		return false, StOK
	case *MapRef:
		if s, ok := b.(string); ok {
			_, has := c.M[s]
			return has, StOK
		}
		if b == nil {
			return false, m.why(StUnspec, "map contains nil")
		}
		// contains tests the map's keys, and a value of one kind never equals a value of another:
		// a number, boolean or array is not a key of a string-keyed map
		return false, StOK
	}
	return false, m.why(StUnspec, "contains on a %T", a)
}

// Compare evaluates a comparison operator.
func (m *Model) Compare(op string, a, b any) (bool, Status) {
	switch op {
	case "==":
		return m.Equal(a, b)
	case "!=":
		r, st := m.Equal(a, b)
		return !r, st
	case "<":
		return m.Less(a, b)
	case ">":
		return m.Less(b, a)
	case "<=", ">=":
		if op == ">=" {
			a, b = b, a
		}
		lt, st1 := m.Less(a, b)
		eq, st2 := m.Equal(a, b)
		if (st1 == StOK && lt) || (st2 == StOK && eq) {
			return true, StOK
		}
		if st1 != StOK || st2 != StOK {
			return false, StUnspec
		}
		return false, StOK
	case "contains":
		return m.Contains(a, b)
	}
	return false, m.why(StUnspec, "operator %s", op)
}

// ---- reference filters (well-typed inputs only; everything else is unspecified) ----

func runeUpper(s string) string { return strings.Map(unicode.ToUpper, s) }
func runeLower(s string) string { return strings.Map(unicode.ToLower, s) }

func (m *Model) strArg(v any) (string, bool) {
	switch x := v.(type) {
	case string:
		return x, true
	case nil:
		return "", true
	case bool, int64:
		s, st := m.Print(x)
		return s, st == StOK
	}
	return "", false
}

func isSpaceRune(r rune) bool { return unicode.IsSpace(r) }

// Filter applies a reference filter.
func (m *Model) Filter(name string, x any, args []any) (any, Status) {
	un := func(f string, a ...any) (any, Status) { return nil, m.why(StUnspec, "filter "+name+": "+f, a...) }
	switch name {
	case "tick": // harness-registered counting filter (identity)
		m.TicksHi++
		if m.skipLo == 0 {
			m.Ticks++
		}
		return x, StOK
	case "fail": // harness-registered filter that always returns an error
		return nil, StErr
	case "size":
		if len(args) != 0 {
			return un("arguments")
		}
		switch c := x.(type) {
		case []any:
			return int64(len(c)), StOK
		case string:
			return int64(utf8.RuneCountInString(c)), StOK
		}
		return un("receiver %T", x)
	case "first", "last":
		c, ok := x.([]any)
		if !ok || len(args) != 0 {
			return un("receiver %T", x)
		}
		if len(c) == 0 {
			return nil, StOK
		}
		if name == "first" {
			return c[0], StOK
		}
		return c[len(c)-1], StOK
	case "join":
		c, ok := x.([]any)
		if !ok || len(args) > 1 {
			return un("receiver %T", x)
		}
		sep := " "
		if len(args) == 1 {
			s, ok := args[0].(string)
			if !ok {
				return un("separator %T", args[0])
			}
			sep = s
		}
		var parts []string
		for _, e := range c {
			if e == nil {
				continue
			}
			switch e.(type) {
			case bool, int64, float64, string:
			default:
				return un("element %T", e)
			}
			s, st := m.Print(e)
			if st != StOK {
				return nil, st
			}
			parts = append(parts, s)
		}
		return strings.Join(parts, sep), StOK
	case "reverse":
		c, ok := x.([]any)
		if !ok || len(args) != 0 {
			return un("receiver %T", x)
		}
		out := make([]any, len(c))
		for i, e := range c {
			out[len(c)-1-i] = e
		}
		return out, StOK
	case "compact":
		c, ok := x.([]any)
		if !ok || len(args) != 0 {
			return un("receiver %T", x)
		}
		out := []any{}
		for _, e := range c {
			if e != nil {
				out = append(out, e)
			}
		}
		return out, StOK
	case "concat":
		c, ok := x.([]any)
		if !ok || len(args) != 1 {
			return un("receiver %T", x)
		}
		d, ok := args[0].([]any)
		if !ok {
			return un("argument %T", args[0])
		}
		return append(append([]any{}, c...), d...), StOK
	case "uniq":
		c, ok := x.([]any)
		if !ok || len(args) != 0 {
			return un("receiver %T", x)
		}
		out := []any{}
		for _, e := range c {
			dup := false
			for _, o := range out {
				eq, st := m.Equal(e, o)
				if st != StOK {
					return nil, st
				}
				if eq {
					dup = true
					break
				}
			}
			if !dup {
				out = append(out, e)
			}
		}
		return out, StOK
	case "sort":
		c, ok := x.([]any)
		if !ok || len(args) != 0 {
			return un("receiver %T / key", x)
		}
		k := ""
		for _, e := range c {
			ke := kindOf(e)
			if ke != "num" && ke != "str" {
				return un("element %T", e)
			}
			if k != "" && k != ke {
				return un("mixed kinds")
			}
			k = ke
		}
		out := append([]any{}, c...)
		bad := false
		sort.SliceStable(out, func(i, j int) bool {
			lt, st := m.Less(out[i], out[j])
			if st != StOK {
				bad = true
			}
			return lt
		})
		if bad {
			return un("incomparable")
		}
		// equal numbers of different kinds (1 and 1.0) print differently: order among them is not stated
		for i := 1; i < len(out); i++ {
			if eq, _ := m.Equal(out[i-1], out[i]); eq && fmt.Sprintf("%T", out[i-1]) != fmt.Sprintf("%T", out[i]) {
				return un("equal elements of different numeric kinds")
			}
		}
		return out, StOK
	case "map":
		c, ok := x.([]any)
		if !ok || len(args) != 1 {
			return un("receiver %T", x)
		}
		key, ok := args[0].(string)
		if !ok {
			return un("key %T", args[0])
		}
		out := make([]any, len(c))
		for i, e := range c {
			// per-element property lookup, exactly as e.key would do it (including the size fallback)
			v, st := m.property(e, key, false)
			if st != StOK {
				return nil, st
			}
			out[i] = v
		}
		return out, StOK
	case "upcase", "downcase", "strip", "lstrip", "rstrip", "capitalize":
		s, ok := m.strArg(x)
		if !ok || len(args) != 0 {
			return un("receiver %T", x)
		}
		switch name {
		case "upcase":
			return runeUpper(s), StOK
		case "downcase":
			return runeLower(s), StOK
		case "strip":
			return strings.TrimFunc(s, isSpaceRune), StOK
		case "lstrip":
			return strings.TrimLeftFunc(s, isSpaceRune), StOK
		case "rstrip":
			return strings.TrimRightFunc(s, isSpaceRune), StOK
		}
		return un("not modelled")
	case "append", "prepend":
		s, ok := m.strArg(x)
		if !ok || len(args) != 1 {
			return un("receiver %T", x)
		}
		a, ok := m.strArg(args[0])
		if !ok {
			return un("argument %T", args[0])
		}
		if name == "append" {
			return s + a, StOK
		}
		return a + s, StOK
	case "plus", "minus", "times":
		if len(args) != 1 {
			return un("arity")
		}
		a, ok1 := x.(int64)
		b, ok2 := args[0].(int64)
		if !ok1 || !ok2 || a > 1<<20 || a < -(1<<20) || b > 1<<20 || b < -(1<<20) {
			return un("operands outside the small-integer model")
		}
		var r int64
		switch name {
		case "plus":
			r = a + b
		case "minus":
			r = a - b
		default:
			r = a * b
			if r == 0 && (a < 0 || b < 0) {
				// float arithmetic gives -0 here, which prints as "-0": numerically equal, textually not stated
				return un("zero product with a negative factor")
			}
		}
		// arithmetic yields a number; whether it is usable where an integer is
		// required (index, limit) is not stated, so it is carried as a float
		return float64(r), StOK
	case "divided_by":
		if len(args) == 1 {
			if b, ok := args[0].(int64); ok && b == 0 {
				if _, ok := x.(int64); ok {
					return nil, StErr
				}
			}
		}
		return un("not modelled")
	}
	return un("not modelled")
}
