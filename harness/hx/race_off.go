//go:build !race

package hx

// RaceEnabled reports whether the binary was built with the race detector.
const RaceEnabled = false
