package hx

import (
	"flag"
	"fmt"
	"strconv"
	"strings"
	"sync"

	"pgregory.net/rapid"
)

// quietTB lets rapid run outside the testing framework's failure handling: the
// result of a property run is data for the collector, not a test failure.
type quietTB struct {
	name   string
	mu     sync.Mutex
	failed bool
	log    strings.Builder
}

type failNow struct{}

func (q *quietTB) Helper()      {}
func (q *quietTB) Name() string { return q.name }
func (q *quietTB) Logf(f string, a ...any) {
	q.mu.Lock()
	if q.log.Len() < 1<<16 {
		fmt.Fprintf(&q.log, f+"\n", a...)
	}
	q.mu.Unlock()
}
func (q *quietTB) Log(a ...any)              { q.Logf("%s", fmt.Sprint(a...)) }
func (q *quietTB) Skipf(f string, a ...any)  { q.Logf(f, a...) }
func (q *quietTB) Skip(a ...any)             { q.Log(a...) }
func (q *quietTB) SkipNow()                  {}
func (q *quietTB) Errorf(f string, a ...any) { q.Logf(f, a...); q.Fail() }
func (q *quietTB) Error(a ...any)            { q.Log(a...); q.Fail() }
func (q *quietTB) Fatalf(f string, a ...any) { q.Logf(f, a...); q.FailNow() }
func (q *quietTB) Fatal(a ...any)            { q.Log(a...); q.FailNow() }
func (q *quietTB) FailNow()                  { q.Fail(); panic(failNow{}) }
func (q *quietTB) Fail()                     { q.mu.Lock(); q.failed = true; q.mu.Unlock() }
func (q *quietTB) Failed() bool              { q.mu.Lock(); defer q.mu.Unlock(); return q.failed }

// Rapid runs prop for `checks` generated cases with a seed derived from the run
// seed. A failure is shrunk by rapid; the violation reported last (rapid re-runs
// the minimal case at the end) is the one that is recorded. It returns the
// number of cases requested and whether the property held.
func (c *Collector) Rapid(s *Sub, checks int, prop func(t *rapid.T)) bool {
	_ = flag.Set("rapid.checks", strconv.Itoa(checks))
	_ = flag.Set("rapid.seed", strconv.FormatUint(c.Env.Mix(s.Name), 10))
	_ = flag.Set("rapid.nofailfile", "true")
	_ = flag.Set("rapid.shrinktime", "25s")
	s.Requested += int64(checks)
	tb := &quietTB{name: "verif_" + s.Name}
	c.mu.Lock()
	c.inRapid, c.pending = true, nil
	c.mu.Unlock()
	func() {
		defer func() {
			if r := recover(); r != nil {
				if _, ok := r.(failNow); !ok {
					panic(r)
				}
			}
		}()
		rapid.Check(tb, prop)
	}()
	c.mu.Lock()
	defer c.mu.Unlock()
	c.inRapid = false
	if !tb.Failed() {
		return true
	}
	if c.pending != nil {
		c.viol = append(c.viol, *c.pending)
		c.pending = nil
	} else {
		// rapid failed without a reported violation: a harness problem (generator
		// exhausted, panic in the property itself). Surface it as such.
		c.viol = append(c.viol, Violation{Property: c.Property, Check: s.Name, Sig: "harness-error", Message: "rapid run failed without a recorded violation: " + tail(tb.log.String(), 1500), Case: MustJSON(nil)})
	}
	return false
}

func tail(s string, n int) string {
	if len(s) > n {
		return s[len(s)-n:]
	}
	return s
}
