package hx

import (
	"encoding/json"
	"fmt"
	"os"
	"path/filepath"
	"sort"
	"strings"
)

// replay registry: check name -> function that re-executes one saved case
var registry = map[string]func(raw json.RawMessage) (*Violation, error){}

// Def is a check definition: a pure function from a JSON-able case to an
// optional violation. Generators live with the tests; Eval never draws
// randomness, so a saved case replays exactly.
type Def[C any] struct {
	Name string
	Eval func(c *C, s *Sub) *Violation
}

// Define registers a check (and its replay entry point).
func Define[C any](name string, eval func(c *C, s *Sub) *Violation) *Def[C] {
	d := &Def[C]{Name: name, Eval: eval}
	if _, dup := registry[name]; dup {
		panic("duplicate check " + name)
	}
	registry[name] = func(raw json.RawMessage) (*Violation, error) {
		var c C
		if err := json.Unmarshal(raw, &c); err != nil {
			return nil, err
		}
		s := &Sub{Name: name, Classes: map[string]int64{}, hashes: map[uint64]struct{}{}}
		v := eval(&c, s)
		if v != nil {
			v.Check = name
			v.Case = raw
		}
		return v, nil
	}
	return d
}

// Check is a definition bound to a collector.
type Check[C any] struct {
	*Def[C]
	Sub *Sub
	col *Collector
	// Hang decides whether not returning (or exhausting memory) on case c is itself a
	// violation of the property; it returns the failure signature, or "" for "inconclusive".
	Hang func(c *C) string
}

// On binds the definition to a collector for one run.
func (d *Def[C]) On(col *Collector, rule string, exhaustive bool) *Check[C] {
	return &Check[C]{Def: d, Sub: col.Sub(d.Name, rule, exhaustive), col: col}
}

// Run evaluates one case. It returns a violation only if it is not a listed known finding.
func (k *Check[C]) Run(c *C) *Violation {
	k.Sub.Eval()
	k.col.BeginV(func() string { return string(MustJSON(c)) }, func() *Violation {
		if k.Hang == nil {
			return nil
		}
		if sig := k.Hang(c); sig != "" {
			return &Violation{Check: k.Name, Sig: sig, Message: "the case did not return", Case: MustJSON(c)}
		}
		return nil
	})
	v := k.Eval(c, k.Sub)
	k.col.End()
	if v == nil {
		return nil
	}
	v.Check = k.Name
	v.Case = MustJSON(c)
	return k.col.Report(*v)
}

// Replay re-executes a saved case of the named check.
func Replay(check string, raw json.RawMessage) (*Violation, error) {
	fn, ok := registry[check]
	if !ok {
		return nil, fmt.Errorf("no check named %q", check)
	}
	return fn(raw)
}

// V builds a violation.
func V(sig, format string, a ...any) *Violation {
	return &Violation{Sig: sig, Message: squeezeRuns(fmt.Sprintf(format, a...))}
}

// squeezeRuns abbreviates runs of more than 40 equal bytes in a message (the case itself is kept in full in the replay file).
func squeezeRuns(s string) string {
	var sb strings.Builder
	for i := 0; i < len(s); {
		j := i
		for j < len(s) && s[j] == s[i] {
			j++
		}
		if j-i > 40 && s[i] < 0x80 {
			fmt.Fprintf(&sb, "%s…(%d×%q)…%s", s[i:i+3], j-i, s[i], s[i:i+3])
		} else {
			sb.WriteString(s[i:j])
		}
		i = j
	}
	return sb.String()
}

// Corpus re-executes the committed regression cases of the property
// (/verif/corpus/<id>/*.json: shrunk replays of defects that were repaired)
// before anything is generated. Shard 0 only.
func (c *Collector) Corpus() {
	if c.Env.Shard != 0 {
		return
	}
	files, _ := filepath.Glob(filepath.Join(Root(), "corpus", c.Property, "*.json"))
	if len(files) == 0 {
		return
	}
	sort.Strings(files)
	s := c.Sub("corpus", "committed regression cases (minimal replays of repaired defects) re-executed through the same checks; every file is one distinct non-trivial case", true)
	for _, f := range files {
		b, err := os.ReadFile(f)
		if err != nil {
			continue
		}
		var v struct {
			Check string          `json:"check"`
			Case  json.RawMessage `json:"case"`
		}
		if json.Unmarshal(b, &v) != nil {
			continue
		}
		s.Eval()
		s.NT()
		got, err := Replay(v.Check, v.Case)
		if err != nil {
			s.Note("corpus file %s: %v", filepath.Base(f), err)
			continue
		}
		if len(s.Samples) < 3 {
			s.Sample(map[string]any{"file": filepath.Base(f), "check": v.Check, "case": v.Case})
		}
		if got != nil {
			got.Message = "regression (corpus " + filepath.Base(f) + "): " + got.Message
			c.Report(*got)
		}
	}
}
