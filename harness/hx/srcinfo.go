package hx

import (
	"go/ast"
	"go/parser"
	"go/token"
	"os"
	"path/filepath"
	"sort"
	"strconv"
	"strings"
)

// RepoDir is the tree under test.
func RepoDir() string {
	if r := os.Getenv("VERIF_REPO"); r != "" {
		return r
	}
	return "/repo"
}

// SrcInfo is what the harness reads from /repo's sources at run time, so that a
// filter or tag added to the library later is swept into the matrices without
// touching the harness.
type SrcInfo struct {
	Filters   []string // names registered with AddFilter("...")
	Tags      []string // AddTag("...")
	Blocks    []string // AddBlock("...")
	Clauses   []string // Clause("...")
	Templates []string // string literals of *_test.go that contain {{ or {%
	Exprs     []string // other short string literals from expressions/filters test tables
}

func callName(c *ast.CallExpr) string {
	switch f := c.Fun.(type) {
	case *ast.SelectorExpr:
		return f.Sel.Name
	case *ast.Ident:
		return f.Name
	}
	return ""
}

// ReadSrcInfo parses the repository.
func ReadSrcInfo() (*SrcInfo, error) {
	si := &SrcInfo{}
	set := map[string]map[string]bool{"AddFilter": {}, "AddTag": {}, "AddBlock": {}, "Clause": {}}
	tpl, exprs := map[string]bool{}, map[string]bool{}
	fset := token.NewFileSet()
	err := filepath.Walk(RepoDir(), func(path string, info os.FileInfo, err error) error {
		if err != nil {
			return nil
		}
		if info.IsDir() {
			if strings.HasPrefix(info.Name(), ".") && path != RepoDir() {
				return filepath.SkipDir
			}
			return nil
		}
		if !strings.HasSuffix(path, ".go") {
			return nil
		}
		f, err := parser.ParseFile(fset, path, nil, 0)
		if err != nil {
			return nil
		}
		isTest := strings.HasSuffix(path, "_test.go")
		inExprTables := isTest && (strings.Contains(path, "/expressions/") || strings.Contains(path, "/filters/"))
		ast.Inspect(f, func(n ast.Node) bool {
			switch x := n.(type) {
			case *ast.CallExpr:
				if !isTest {
					if m, ok := set[callName(x)]; ok && len(x.Args) > 0 {
						if lit, ok := x.Args[0].(*ast.BasicLit); ok && lit.Kind == token.STRING {
							if s, err := strconv.Unquote(lit.Value); err == nil {
								m[s] = true
							}
						}
					}
				}
			case *ast.BasicLit:
				if isTest && x.Kind == token.STRING {
					s, err := strconv.Unquote(x.Value)
					if err != nil || len(s) > 2000 {
						return true
					}
					if strings.Contains(s, "{{") || strings.Contains(s, "{%") {
						tpl[s] = true
					} else if inExprTables && len(s) > 0 && len(s) < 120 && !strings.ContainsAny(s, "\n") {
						exprs[s] = true
					}
				}
			}
			return true
		})
		return nil
	})
	if err != nil {
		return nil, err
	}
	keys := func(m map[string]bool) []string {
		out := make([]string, 0, len(m))
		for k := range m {
			out = append(out, k)
		}
		sort.Strings(out)
		return out
	}
	si.Filters, si.Tags, si.Blocks, si.Clauses = keys(set["AddFilter"]), keys(set["AddTag"]), keys(set["AddBlock"]), keys(set["Clause"])
	si.Templates, si.Exprs = keys(tpl), keys(exprs)
	return si, nil
}
