package hx

import (
	"strconv"
	"strings"
)

// ---- harness-side template AST (plain data, JSON-able) ----

// E is an expression node.
//
//	lit    V                       literal (nil, bool, int, float, str); Q: single quotes
//	var    N
//	prop   N, A[0]                 A[0].N  or  A[0]["N"] when Br
//	idx    A[0], A[1]              A[0][A[1]]
//	range  A[0], A[1]              (A[0]..A[1])
//	filter N, A[0], A[1:]          A[0] | N: A[1], A[2]
//	cmp    N, A[0], A[1]           == != < > <= >= contains
//	bool   N, A[0], A[1]           and / or
//	paren  A[0]                    ( A[0] )
type E struct {
	T  string `json:"t"`
	V  *Spec  `json:"v,omitempty"`
	N  string `json:"n,omitempty"`
	Br bool   `json:"br,omitempty"`
	Q  bool   `json:"q,omitempty"`
	A  []*E   `json:"a,omitempty"`
}

// N is a template node.
//
//	text S | obj E | assign S=E | capture S Body | if/unless E Body Cl | case E Cl |
//	for/tablerow S in E (Rev Off Lim Cols) Body Cl(else) | break | continue |
//	cycle (G) Vals | comment S | raw S | include E
type N struct {
	T    string    `json:"t"`
	S    string    `json:"s,omitempty"`
	E    *E        `json:"e,omitempty"`
	Body []*N      `json:"body,omitempty"`
	Cl   []*Clause `json:"cl,omitempty"`
	Rev  bool      `json:"rev,omitempty"`
	Off  *E        `json:"off,omitempty"`
	Lim  *E        `json:"lim,omitempty"`
	Cols *E        `json:"cols,omitempty"`
	G    *string   `json:"g,omitempty"`
	Vals []string  `json:"vals,omitempty"`
}

// Clause is an elsif / else / when clause.
type Clause struct {
	T    string `json:"t"`
	E    []*E   `json:"e,omitempty"`
	Body []*N   `json:"body,omitempty"`
}

// expression constructors
func Lit(v *Spec) *E                 { return &E{T: "lit", V: v} }
func LInt(i int64) *E                { return Lit(SInt(i)) }
func LStr(s string) *E               { return Lit(SStr(s)) }
func LBool(b bool) *E                { return Lit(SBool(b)) }
func LNil() *E                       { return Lit(SNil()) }
func Var(n string) *E                { return &E{T: "var", N: n} }
func Prop(x *E, n string) *E         { return &E{T: "prop", N: n, A: []*E{x}} }
func PropBr(x *E, n string) *E       { return &E{T: "prop", N: n, Br: true, A: []*E{x}} }
func Idx(x, i *E) *E                 { return &E{T: "idx", A: []*E{x, i}} }
func RangeE(a, b *E) *E              { return &E{T: "range", A: []*E{a, b}} }
func Flt(x *E, n string, a ...*E) *E { return &E{T: "filter", N: n, A: append([]*E{x}, a...)} }
func Cmp(op string, a, b *E) *E      { return &E{T: "cmp", N: op, A: []*E{a, b}} }
func BoolE(op string, a, b *E) *E    { return &E{T: "bool", N: op, A: []*E{a, b}} }
func Paren(x *E) *E                  { return &E{T: "paren", A: []*E{x}} }

// node constructors
func Text(s string) *N             { return &N{T: "text", S: s} }
func Obj(e *E) *N                  { return &N{T: "obj", E: e} }
func Assign(n string, e *E) *N     { return &N{T: "assign", S: n, E: e} }
func Capture(n string, b ...*N) *N { return &N{T: "capture", S: n, Body: b} }

// ---- printing ----

// A Spacer decides the whitespace at every lexical junction inside a tag or
// object. Seq is consumed cyclically; an empty Seq gives the conventional
// single-space layout. Values: 0 minimal, 1 " ", 2 "  ", 3 "\t", 4 "\n", 5 " \r\n ".
type Spacer struct {
	Seq []int
	i   int
	// NoNL maps newline choices to spaces (objects on a tree whose tokenizer
	// cannot take newlines inside {{ }} are a separate finding).
	NoNL bool
}

var spaceChoices = []string{"", " ", "  ", "\t", "\n", " \r\n "}

func (sp *Spacer) next(tight, must bool) string {
	if sp == nil || len(sp.Seq) == 0 {
		if tight && !must {
			return ""
		}
		return " "
	}
	c := sp.Seq[sp.i%len(sp.Seq)]
	sp.i++
	s := spaceChoices[((c%len(spaceChoices))+len(spaceChoices))%len(spaceChoices)]
	if sp.NoNL {
		s = strings.NewReplacer("\r\n", " ", "\n", " ").Replace(s)
	}
	if s == "" && must {
		return " "
	}
	return s
}

func wordy(c byte) bool {
	return c == '_' || c == '?' || (c >= '0' && c <= '9') || (c >= 'a' && c <= 'z') || (c >= 'A' && c <= 'Z')
}

// lexical token with a "tight" flag: conventionally no space before it
type ltok struct {
	s     string
	tight bool // no conventional space before this token
	glue  bool // no conventional space after this token
}

func joinToks(toks []ltok, sp *Spacer) string {
	var sb strings.Builder
	for i, t := range toks {
		if i > 0 {
			prev := toks[i-1]
			l, r := prev.s[len(prev.s)-1], t.s[0]
			must := wordy(l) && (wordy(r) || r == '-')
			sb.WriteString(sp.next(t.tight || prev.glue, must))
		}
		sb.WriteString(t.s)
	}
	return sb.String()
}

func litString(v *Spec, single bool) string {
	switch v.K {
	case "nil":
		return "nil"
	case "bool":
		if v.B {
			return "true"
		}
		return "false"
	case "int":
		return strconv.FormatInt(v.I, 10)
	case "float":
		s := strconv.FormatFloat(v.F, 'f', -1, 64)
		if !strings.Contains(s, ".") {
			s += ".0"
		}
		return s
	case "str":
		if single || strings.Contains(v.S, `"`) {
			return "'" + v.S + "'"
		}
		return `"` + v.S + `"`
	}
	panic("literal of kind " + v.K)
}

func (e *E) toks(out []ltok) []ltok {
	switch e.T {
	case "lit":
		return append(out, ltok{s: litString(e.V, e.Q)})
	case "var":
		return append(out, ltok{s: e.N})
	case "prop":
		out = e.A[0].toks(out)
		if e.Br {
			out = append(out, ltok{s: "[", tight: true, glue: true})
			out = append(out, ltok{s: litString(SStr(e.N), e.Q)})
			return append(out, ltok{s: "]", tight: true})
		}
		return append(out, ltok{s: "." + e.N, tight: true})
	case "idx":
		out = e.A[0].toks(out)
		out = append(out, ltok{s: "[", tight: true, glue: true})
		out = e.A[1].toks(out)
		return append(out, ltok{s: "]", tight: true})
	case "range":
		out = append(out, ltok{s: "(", glue: true})
		out = e.A[0].toks(out)
		out = append(out, ltok{s: "..", tight: true, glue: true})
		out = e.A[1].toks(out)
		return append(out, ltok{s: ")", tight: true})
	case "filter":
		out = e.A[0].toks(out)
		out = append(out, ltok{s: "|"})
		if len(e.A) == 1 {
			return append(out, ltok{s: e.N})
		}
		out = append(out, ltok{s: e.N + ":"})
		for i, a := range e.A[1:] {
			if i > 0 {
				out = append(out, ltok{s: ",", tight: true})
			}
			out = a.toks(out)
		}
		return out
	case "cmp", "bool":
		out = e.A[0].toks(out)
		out = append(out, ltok{s: e.N})
		return e.A[1].toks(out)
	case "paren":
		out = append(out, ltok{s: "(", glue: true})
		out = e.A[0].toks(out)
		return append(out, ltok{s: ")", tight: true})
	}
	panic("expr type " + e.T)
}

// String prints the expression with conventional spacing.
func (e *E) String() string { return joinToks(e.toks(nil), nil) }

// Print prints the expression with the given spacing policy.
func (e *E) Print(sp *Spacer) string { return joinToks(e.toks(nil), sp) }

// Token kinds of the printed template.
const (
	TText = iota
	TObj
	TTag
)

// Tok is one token of a printed template, before delimiters and hyphens are chosen.
type Tok struct {
	Kind int    `json:"k"`
	Body string `json:"b"`             // text, or the inside of the object / tag
	Name string `json:"n,omitempty"`   // tag name
	Raw  bool   `json:"raw,omitempty"` // inside a raw / comment body: printed verbatim
}

func tagTok(name string, args []ltok, sp *Spacer) Tok {
	body := name
	if len(args) > 0 {
		ws := sp.next(false, true)
		if ws == "" {
			ws = " "
		}
		body += ws + joinToks(args, sp)
	}
	return Tok{Kind: TTag, Body: body, Name: name}
}

// Tokens prints nodes to a token list.
func Tokens(nodes []*N, sp *Spacer) []Tok {
	var out []Tok
	for _, n := range nodes {
		out = n.tokens(out, sp)
	}
	return out
}

func (n *N) loopArgs() []ltok {
	args := []ltok{{s: n.S}, {s: "in"}}
	args = n.E.toks(args)
	if n.Rev {
		args = append(args, ltok{s: "reversed"})
	}
	if n.Off != nil {
		args = append(args, ltok{s: "offset:"})
		args = n.Off.toks(args)
	}
	if n.Lim != nil {
		args = append(args, ltok{s: "limit:"})
		args = n.Lim.toks(args)
	}
	if n.Cols != nil {
		args = append(args, ltok{s: "cols:"})
		args = n.Cols.toks(args)
	}
	return args
}

func (n *N) tokens(out []Tok, sp *Spacer) []Tok {
	switch n.T {
	case "text":
		if n.S == "" {
			return out
		}
		return append(out, Tok{Kind: TText, Body: n.S})
	case "obj":
		return append(out, Tok{Kind: TObj, Body: n.E.Print(sp)})
	case "assign":
		args := []ltok{{s: n.S}, {s: "="}}
		return append(out, tagTok("assign", n.E.toks(args), sp))
	case "capture":
		out = append(out, tagTok("capture", []ltok{{s: n.S}}, sp))
		out = append(out, Tokens(n.Body, sp)...)
		return append(out, tagTok("endcapture", nil, sp))
	case "if", "unless":
		out = append(out, tagTok(n.T, n.E.toks(nil), sp))
		out = append(out, Tokens(n.Body, sp)...)
		for _, c := range n.Cl {
			if c.T == "elsif" {
				out = append(out, tagTok("elsif", c.E[0].toks(nil), sp))
			} else {
				out = append(out, tagTok("else", nil, sp))
			}
			out = append(out, Tokens(c.Body, sp)...)
		}
		return append(out, tagTok("end"+n.T, nil, sp))
	case "case":
		out = append(out, tagTok("case", n.E.toks(nil), sp))
		for _, c := range n.Cl {
			if c.T == "when" {
				var args []ltok
				for i, e := range c.E {
					if i > 0 {
						args = append(args, ltok{s: ",", tight: true})
					}
					args = e.toks(args)
				}
				out = append(out, tagTok("when", args, sp))
			} else {
				out = append(out, tagTok("else", nil, sp))
			}
			out = append(out, Tokens(c.Body, sp)...)
		}
		return append(out, tagTok("endcase", nil, sp))
	case "for", "tablerow":
		out = append(out, tagTok(n.T, n.loopArgs(), sp))
		out = append(out, Tokens(n.Body, sp)...)
		for _, c := range n.Cl {
			out = append(out, tagTok("else", nil, sp))
			out = append(out, Tokens(c.Body, sp)...)
		}
		return append(out, tagTok("end"+n.T, nil, sp))
	case "break", "continue":
		return append(out, tagTok(n.T, nil, sp))
	case "cycle":
		var args []ltok
		if n.G != nil {
			args = append(args, ltok{s: litString(SStr(*n.G), false)}, ltok{s: ":", tight: true})
		}
		for i, v := range n.Vals {
			if i > 0 {
				args = append(args, ltok{s: ",", tight: true})
			}
			args = append(args, ltok{s: litString(SStr(v), true)})
		}
		return append(out, tagTok("cycle", args, sp))
	case "comment", "raw":
		out = append(out, tagTok(n.T, nil, sp))
		if n.S != "" {
			out = append(out, Tok{Kind: TText, Body: n.S, Raw: true})
		}
		return append(out, tagTok("end"+n.T, nil, sp))
	case "include":
		return append(out, tagTok("include", n.E.toks(nil), sp))
	}
	panic("node type " + n.T)
}

// Delims is a delimiter quadruple.
type Delims struct{ OL, OR, TL, TR string }

// DefaultDelims are the standard Liquid delimiters.
var DefaultDelims = Delims{"{{", "}}", "{%", "%}"}

// Spell turns tokens into template source. hy holds two hyphen flags per
// non-text token (left, right), in token order; nil means no hyphens.
func Spell(toks []Tok, d Delims, hy []bool) string {
	var sb strings.Builder
	k := 0
	for _, t := range toks {
		if t.Kind == TText {
			sb.WriteString(t.Body)
			continue
		}
		l, r := d.OL, d.OR
		if t.Kind == TTag {
			l, r = d.TL, d.TR
		}
		hl, hr := false, false
		if 2*k+1 < len(hy) {
			hl, hr = hy[2*k], hy[2*k+1]
		}
		k++
		sb.WriteString(l)
		if hl {
			sb.WriteString("-")
		}
		sb.WriteString(" ")
		sb.WriteString(t.Body)
		sb.WriteString(" ")
		if hr {
			sb.WriteString("-")
		}
		sb.WriteString(r)
	}
	return sb.String()
}

// SpellTight is Spell with the padding between delimiter (or hyphen) and content
// left out for the tokens whose flag in tight is set (one flag per non-text
// token): {%-endif-%}, {{x}}. A content that itself starts or ends with a
// hyphen keeps its padding, since {{-2}} means "trim, then 2".
func SpellTight(toks []Tok, d Delims, hy []bool, tight []bool) string {
	var sb strings.Builder
	k := 0
	for _, t := range toks {
		if t.Kind == TText {
			sb.WriteString(t.Body)
			continue
		}
		l, r := d.OL, d.OR
		if t.Kind == TTag {
			l, r = d.TL, d.TR
		}
		hl, hr := false, false
		if 2*k+1 < len(hy) {
			hl, hr = hy[2*k], hy[2*k+1]
		}
		pad := " "
		if k < len(tight) && tight[k] && !strings.HasPrefix(t.Body, "-") && !strings.HasSuffix(t.Body, "-") {
			pad = ""
		}
		k++
		sb.WriteString(l)
		if hl {
			sb.WriteString("-")
		}
		sb.WriteString(pad)
		sb.WriteString(t.Body)
		sb.WriteString(pad)
		if hr {
			sb.WriteString("-")
		}
		sb.WriteString(r)
	}
	return sb.String()
}

// Source prints nodes with default delimiters, conventional spacing and no hyphens.
func Source(nodes []*N) string { return Spell(Tokens(nodes, nil), DefaultDelims, nil) }

// SourceSp prints nodes with default delimiters and a spacing policy. A policy
// whose first choice is "none" also leaves out the padding next to the
// delimiters ({{x}}, {%if x%}) wherever that is unambiguous.
func SourceSp(nodes []*N, sp *Spacer) string {
	toks := Tokens(nodes, sp)
	if sp != nil && len(sp.Seq) > 0 && sp.Seq[0]%len(spaceChoices) == 0 {
		tight := make([]bool, CountTags(toks))
		for i := range tight {
			tight[i] = true
		}
		return SpellTight(toks, DefaultDelims, nil, tight)
	}
	return Spell(toks, DefaultDelims, nil)
}

// CountTags counts the non-text tokens.
func CountTags(toks []Tok) int {
	n := 0
	for _, t := range toks {
		if t.Kind != TText {
			n++
		}
	}
	return n
}

// MergeText joins adjacent text tokens, as the tokenizer will see them.
func MergeText(toks []Tok) []Tok {
	var out []Tok
	for _, t := range toks {
		if n := len(out); n > 0 && t.Kind == TText && out[n-1].Kind == TText && out[n-1].Raw == t.Raw {
			out[n-1].Body += t.Body
			continue
		}
		out = append(out, t)
	}
	return out
}
