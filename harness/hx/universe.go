package hx

import (
	"math"
	"strings"
	"time"

	"github.com/osteele/liquid/values"
	yaml "gopkg.in/yaml.v2"
)

// UVal is a named member of the boundary-value universe U. Make builds a fresh
// Go value each time, so cases never share state. Logical is the model-side
// value when the member is plain Liquid data (nil otherwise, with Plain false).
type UVal struct {
	Name  string
	Make  func() any
	Spec  *Spec // non-nil when the member is expressible as a Spec (plain Liquid data)
	Plain bool
}

type dataStruct struct {
	Title string
	Count int
	Tags  []string
	Named string `liquid:"name"`
	inner int
}

type anyStruct struct {
	Name string
	Data any
}

// a struct that embeds a pointer to another struct; the pointer may be nil
type embInner struct{ X int }
type embOuter struct {
	*embInner
	Y int
}

// a map whose key type is a named string type
type namedKey string

// a named slice type with elements of any type
type namedList []any

// a struct with a pointer (so that it is printed by values.Sprint's own walk) and unexported containers
type hiddenMapStruct struct {
	Name *string
	tags map[string]int
	list []any
}

// a struct that embeds a pointer: with the pointer nil, the promoted methods (Year, Zone, ...) have nothing to run on
type embTime struct {
	*time.Time
	Label string
}

// a named string type as a value
type namedString string

// a named bool type
type namedBool bool

// NamedString returns s as a value of a named string type.
func NamedString(s string) any { return namedString(s) }

// NamedKeyMap returns a map whose key type is a named string type.
func NamedKeyMap(m map[string]any) any {
	out := map[namedKey]any{}
	for k, v := range m {
		out[namedKey(k)] = v
	}
	return out
}

type ptrStruct struct {
	A int
	P *int
	M map[string]int
}

func specU(name string, s *Spec) UVal {
	return UVal{Name: name, Make: func() any { return s.Realise() }, Spec: s, Plain: true}
}

func rawU(name string, f func() any) UVal { return UVal{Name: name, Make: f} }

func withRep(s *Spec, r string) *Spec { c := s.Clone(); c.R = r; return c }
func dropped(s *Spec, n int) *Spec    { c := s.Clone(); c.Drop = n; return c }

// Universe returns the boundary-value universe (about 70 members).
func Universe() []UVal {
	long := strings.Repeat("lorem ipsum dolor sit amet ", 152) // ~4 KiB
	u := []UVal{
		specU("nil", SNil()),
		specU("nil *struct", withRep(SNil(), "structptr")),
		specU("true", SBool(true)),
		specU("named false", withRep(SBool(false), "named")),
		specU("named true", withRep(SBool(true), "named")),
		specU("false", SBool(false)),
		specU("0", SInt(0)),
		specU("1", SInt(1)),
		specU("-1", SInt(-1)),
		specU("2", SInt(2)),
		specU("-7", SInt(-7)),
		specU("maxint64", SInt(math.MaxInt64)),
		specU("minint64", SInt(math.MinInt64)),
		specU("2^31", SInt(1<<31)),
		specU("97", SInt(97)),
		specU("int8(-128)", withRep(SInt(-128), "int8")),
		specU("int16(1)", withRep(SInt(1), "int16")),
		specU("int32(2)", withRep(SInt(2), "int32")),
		specU("int64(2)", withRep(SInt(2), "int64")),
		specU("uint8(1)", withRep(SInt(1), "uint8")),
		specU("uint8(255)", withRep(SInt(255), "uint8")),
		specU("uint(2)", withRep(SInt(2), "uint")),
		specU("uint16(0)", withRep(SInt(0), "uint16")),
		specU("uint32(7)", withRep(SInt(7), "uint32")),
		specU("uint64(max)", &Spec{K: "int", U: math.MaxUint64, R: "uint64"}),
		specU("uint64(2^63)", &Spec{K: "int", U: 1 << 63, R: "uint64"}),
		specU("2.5", SFloat(2.5)),
		specU("-0.5", SFloat(-0.5)),
		specU("-0.0", SFloat(math.Copysign(0, -1))),
		specU("0.0", SFloat(0)),
		specU("1.0", SFloat(1)),
		specU("2.0", SFloat(2)),
		specU("1e300", SFloat(1e300)),
		specU("float32(1.25)", withRep(SFloat(1.25), "float32")),
		specU("2^53f", SFloat(1<<53)),
		specU("2^53+1", SInt(1<<53+1)),
		specU("2^63f", SFloat(9223372036854775808.0)),
		specU("float32(2^24)", withRep(SFloat(16777216), "float32")),
		specU("2^24+1", SInt(16777217)),
		specU("0.1", SFloat(0.1)),
		specU("float32(0.1)", &Spec{K: "float", F: float64(float32(0.1)), R: "float32"}),
		specU(`""`, SStr("")),
		specU(`"abc"`, SStr("abc")),
		specU(`"ABC"`, SStr("ABC")),
		specU(`"12"`, SStr("12")),
		specU(`"-3.5"`, SStr("-3.5")),
		specU(`"1"`, SStr("1")),
		specU(`" pad "`, SStr("  padded text \t")),
		specU(`"multi\nline"`, SStr("first line\nsecond line\n")),
		specU(`"héé"`, SStr("héllo wörld")),
		specU(`"😀"`, SStr("a😀b😀")),
		specU(`"<&>"`, SStr(`<a href="x">'&amp;' & </a>`)),
		specU(`"size"`, SStr("size")),
		specU(`"first"`, SStr("first")),
		specU(`"a"`, SStr("a")),
		specU(`"now or never"`, SStr("now or never")),
		specU(`"20 nines"`, SStr("99999999999999999999")),
		specU(`"1e999"`, SStr("1e999")),
		specU(`"-1e400"`, SStr("-1e400")),
		specU(`"a, b and c"`, SStr("a, b and c")),
		specU("4KiB", SStr(long)),
		specU(`"unicode-ws"`, SStr("one\u00a0two\fthree\vfour\u2003five\u3000six\u0085seven\u2028eight nine")),
		specU(`"ws-only"`, SStr(" \t\n\u00a0\u3000")),
		specU(`"nul\x00ff"`, SStr("a\x00b\xffc")),
		specU("[]", SArr()),
		specU("[]string(nil)", withRep(SArr(), "nilslice")),
		specU("[]string{}", withRep(SArr(), "emptystrings")),
		specU("[3,1,2]", SArr(SInt(3), SInt(1), SInt(2))),
		specU("[1]", SArr(SInt(1))),
		specU("[nil,1,nil]", SArr(SNil(), SInt(1), SNil())),
		specU("[[1,2],[3]]", SArr(SArr(SInt(1), SInt(2)), SArr(SInt(3)))),
		specU("named b", withRep(SStr("b"), "named")),
		specU("[]string", withRep(SArr(SStr("b"), SStr("a"), SStr("B")), "typed")),
		specU("[strs]", SArr(SStr("b"), SStr("a"), SStr("B"), SStr("a"))),
		specU("{a:1,b:2}any", withRep(SMap("a", SInt(1), "b", SInt(2)), "anykey")),
		specU("{a:1,b:2}named", withRep(SMap("a", SInt(1), "b", SInt(2)), "namedkey")),
		specU("[]int", withRep(SArr(SInt(2), SInt(1), SInt(2)), "typed")),
		specU("[mixed]", SArr(SInt(1), SStr("a"), SFloat(2.5), SBool(true), SNil(), SStr("1"))),
		specU("[maps]", SArr(SMap("a", SInt(2)), SMap("b", SInt(1)), SMap("a", SNil()), SMap("a", SInt(1)))),
		specU("[3]int", withRep(SArr(SInt(1), SInt(2), SInt(3)), "array")),
		specU("range(1..3)", withRep(SArr(SInt(1), SInt(2), SInt(3)), "range")),
		specU("{}", SMap()),
		specU("{a:1,b:2}", SMap("a", SInt(1), "b", SInt(2))),
		specU("{size:9}", SMap("size", SInt(9), "first", SStr("f"))),
		specU("map[string]int", withRep(SMap("a", SInt(1), "b", SInt(2)), "typed")),
		specU("mapslice", withRep(SMap("a", SInt(1), "b", SStr("x")), "mapslice")),
		specU("drop(1)", dropped(SInt(1), 1)),
		specU("drop(nil)", dropped(SNil(), 1)),
		specU(`drop("abc")`, dropped(SStr("abc"), 1)),
		specU("drop([1,drop(2)])", dropped(SArr(SInt(1), dropped(SInt(2), 1)), 1)),
		specU("drop(drop({a:1}))", dropped(SMap("a", SInt(1)), 2)),
		specU("*int(5)", &Spec{K: "int", I: 5, Ptr: true}),
		specU("*string", &Spec{K: "str", S: "ptr", Ptr: true}),
		rawU("(*int)(nil)", func() any { var p *int; return p }),
		rawU("map[int]string", func() any { return map[int]string{1: "one", 2: "two"} }),
		rawU("map[any]any", func() any { return map[any]any{"a": 1, 2: "b", true: nil} }),
		rawU("time", func() any { return time.Date(2024, 2, 29, 13, 14, 15, 0, time.UTC) }),
		rawU("[]byte", func() any { return []byte("bytes") }),
		rawU("struct{nil-embedded}", func() any { return embOuter{Y: 1} }),
		rawU("*struct{embedded}", func() any { return &embOuter{embInner: &embInner{X: 7}, Y: 2} }),
		rawU("map[named]any", func() any { return map[namedKey]any{"k": 1, "title": "t"} }),
		rawU("[]map[named]any", func() any { return []any{map[namedKey]any{"k": 2}, map[namedKey]any{"k": 1}} }),
		rawU("named-string", func() any { return namedString("en") }),
		rawU("nil*Drop", func() any { var p *Drop; return p }),
		rawU("Drop{nil*Drop}", func() any { var p *Drop; return Drop{V: p} }),
		rawU("[Drop{nil*Drop}]", func() any { var p *Drop; return []any{Drop{V: p}, 1} }),
		rawU("\\xff", func() any { return "\xff" }),
		rawU("\\x80a", func() any { return "\x80a" }),
		rawU("bytes{0xfe}", func() any { return []byte{0xfe} }),
		rawU("[nil*Drop]", func() any { var p *Drop; return []any{p, 1} }),
		rawU("{k:nil*Drop}", func() any { var p *Drop; return map[string]any{"k": p, "title": p} }),
		rawU("[]map[any]any", func() any { return []any{map[any]any{"k": "b", 1: 2}, map[any]any{"k": "a"}} }),
		rawU("map[any]any", func() any { return map[any]any{"x": 1, 2: "two", 2.5: []any{1}} }),
		rawU("map[NaN]", func() any { return map[float64]any{math.NaN(): "x", 1.5: "y"} }),
		rawU("map[any]{NaN}", func() any { return map[any]any{math.NaN(): 1, "k": float32(math.NaN())} }),
		rawU("time{year 12000}", func() any { return time.Date(12000, 1, 1, 0, 0, 0, 0, time.UTC) }),
		rawU("struct{nil-embedded *time}", func() any { return embTime{} }),
		rawU("*time", func() any { t := time.Date(2024, 2, 29, 13, 14, 15, 0, time.FixedZone("X", 3600)); return &t }),
		rawU("struct", func() any { return dataStruct{Title: "T", Count: 3, Tags: []string{"x", "y"}, Named: "nm", inner: 1} }),
		rawU("*struct", func() any { return &dataStruct{Title: "P", Count: 4} }),
		rawU("(*struct)(nil)", func() any { var p *dataStruct; return p }),
		rawU("struct{ptr,map}", func() any { i := 7; return ptrStruct{A: 1, P: &i, M: map[string]int{"a": 1}} }),
		rawU("struct{ptr,unexported map}", func() any {
			n := "x"
			return hiddenMapStruct{Name: &n, tags: map[string]int{"a": 1, "b": 2}, list: []any{1, "x"}}
		}),
		rawU("struct{any:map}", func() any { return anyStruct{Name: "home", Data: map[string]any{"k": []any{1}}} }),
		rawU("struct{any:slice}", func() any { return anyStruct{Name: "home", Data: []any{1, "x"}} }),
		rawU("[]*int", func() any { a, b := 1, 2; return []*int{&a, &b, nil} }),
		rawU("range(5..1)", func() any { return values.NewRange(5, 1) }),
		rawU("mapslice{seqkey}", func() any {
			return yaml.MapSlice{{Key: []any{"a", "b"}, Value: 1}, {Key: yaml.MapSlice{{Key: "k", Value: 1}}, Value: 2}, {Key: map[any]any{"k": 1}, Value: 3}}
		}),
		rawU("mapslice{nilkey}", func() any { return yaml.MapSlice{{Key: nil, Value: 1}, {Key: 2, Value: nil}} }),
		rawU("[]any{struct,time}", func() any {
			return []any{dataStruct{Title: "in"}, time.Date(2020, 1, 1, 0, 0, 0, 0, time.UTC), map[string]any{"k": []any{}}}
		}),
		rawU("[][]string", func() any { return [][]string{{"a", "b"}, {}, nil} }),
		rawU("map[string][]int", func() any { return map[string][]int{"a": {1, 2}, "b": nil} }),
	}
	return u
}

// UniverseIndex maps names to members.
func UniverseIndex() map[string]UVal {
	m := map[string]UVal{}
	for _, u := range Universe() {
		m[u.Name] = u
	}
	return m
}
