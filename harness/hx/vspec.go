package hx

import (
	"fmt"
	"math"
	"reflect"
	"sort"
	"strings"
	"time"

	"github.com/osteele/liquid/values"
	yaml "gopkg.in/yaml.v2"
)

// A Spec is a logical Liquid value (nil, bool, int, float, string, array,
// string-keyed map) together with the Go representation chosen for it. The
// representation is chosen independently at every node of the tree. Specs are
// plain data: they go into replay files as JSON.
type Spec struct {
	K    string   `json:"k"` // nil bool int float str arr map
	B    bool     `json:"b,omitempty"`
	I    int64    `json:"i,omitempty"`
	U    uint64   `json:"u,omitempty"` // used instead of I when R is an unsigned type and the value exceeds int64
	F    float64  `json:"f,omitempty"`
	S    string   `json:"s,omitempty"`
	E    []*Spec  `json:"e,omitempty"`    // array elements, or map values parallel to Keys
	Keys []string `json:"keys,omitempty"` // map keys in insertion order
	R    string   `json:"r,omitempty"`    // representation, "" = canonical ([]any, map[string]any, int, float64, string)
	Drop int      `json:"drop,omitempty"` // number of Drop wrappers
	Ptr  bool     `json:"ptr,omitempty"`  // pointer to the realisation (outside the Drop wrappers)
	Cap  int      `json:"cap,omitempty"`  // capacity hint for maps / slices
}

// Rng is the logical value of an integer range.
type Rng struct{ A, B int64 }

// Drop presents its V as its Liquid value (value receiver, like most user drops).
type Drop struct{ V any }

// ToLiquid implements liquid.Drop.
func (d Drop) ToLiquid() any { return d.V }

// convenience constructors
func SNil() *Spec            { return &Spec{K: "nil"} }
func SBool(b bool) *Spec     { return &Spec{K: "bool", B: b} }
func SInt(i int64) *Spec     { return &Spec{K: "int", I: i} }
func SFloat(f float64) *Spec { return &Spec{K: "float", F: f} }
func SStr(s string) *Spec    { return &Spec{K: "str", S: s} }
func SArr(e ...*Spec) *Spec  { return &Spec{K: "arr", E: e} }
func SMap(kv ...any) *Spec {
	m := &Spec{K: "map"}
	for i := 0; i+1 < len(kv); i += 2 {
		m.Keys = append(m.Keys, kv[i].(string))
		m.E = append(m.E, kv[i+1].(*Spec))
	}
	return m
}

// Clone deep-copies a spec.
func (s *Spec) Clone() *Spec {
	if s == nil {
		return nil
	}
	c := *s
	c.Keys = append([]string(nil), s.Keys...)
	c.E = make([]*Spec, len(s.E))
	for i, e := range s.E {
		c.E[i] = e.Clone()
	}
	return &c
}

// Canon returns a copy with every representation choice removed.
func (s *Spec) Canon() *Spec {
	c := s.Clone()
	c.walk(func(n *Spec) { n.R, n.Drop, n.Ptr, n.Cap = "", 0, false, 0 })
	return c
}

func (s *Spec) walk(f func(*Spec)) {
	f(s)
	for _, e := range s.E {
		e.walk(f)
	}
}

// Logical returns the model-side value: nil, bool, int64 (uint64 beyond int64),
// float64, string, []any, map[string]any.
func (s *Spec) Logical() any {
	switch s.K {
	case "bool":
		return s.B
	case "int":
		if s.U != 0 {
			return s.U
		}
		return s.I
	case "float":
		if s.R == "float32" {
			return float64(float32(s.F))
		}
		return s.F
	case "str":
		return s.S
	case "arr":
		out := make([]any, len(s.E))
		for i, e := range s.E {
			out[i] = e.Logical()
		}
		return out
	case "map":
		out := make(map[string]any, len(s.E))
		for i, k := range s.Keys {
			out[k] = s.E[i].Logical()
		}
		return out
	}
	return nil
}

// Realise builds fresh Go values for the spec.
func (s *Spec) Realise() any {
	v := s.base()
	for i := 0; i < s.Drop; i++ {
		v = Drop{V: v}
	}
	if s.Ptr {
		v = ptrTo(v)
	}
	return v
}

func ptrTo(v any) any {
	if v == nil {
		var p *int
		return p // typed nil pointer
	}
	rv := reflect.ValueOf(v)
	p := reflect.New(rv.Type())
	p.Elem().Set(rv)
	return p.Interface()
}

func (s *Spec) base() any {
	switch s.K {
	case "nil":
		if s.R == "structptr" {
			// a nil pointer to a struct: nil, as every nil pointer is
			var p *dataStruct
			return p
		}
		return nil
	case "bool":
		if s.R == "named" {
			return namedBool(s.B)
		}
		return s.B
	case "int":
		switch s.R {
		case "int8":
			return int8(s.I)
		case "int16":
			return int16(s.I)
		case "int32":
			return int32(s.I)
		case "int64":
			return s.I
		case "uint":
			if s.U != 0 {
				return uint(s.U)
			}
			return uint(s.I)
		case "uint8":
			return uint8(s.I)
		case "uint16":
			return uint16(s.I)
		case "uint32":
			return uint32(s.I)
		case "uint64":
			if s.U != 0 {
				return s.U
			}
			return uint64(s.I)
		}
		return int(s.I)
	case "float":
		if s.R == "float32" {
			return float32(s.F)
		}
		return s.F
	case "str":
		if s.R == "bytes" {
			return []byte(s.S)
		}
		if s.R == "named" {
			return namedString(s.S)
		}
		return s.S
	case "arr":
		return s.realiseArr()
	case "map":
		return s.realiseMap()
	}
	panic("bad spec kind " + s.K)
}

// IntFits reports whether the integer value fits the representation r.
func IntFits(i int64, r string) bool {
	switch r {
	case "", "int", "int64":
		return true
	case "int8":
		return i >= math.MinInt8 && i <= math.MaxInt8
	case "int16":
		return i >= math.MinInt16 && i <= math.MaxInt16
	case "int32":
		return i >= math.MinInt32 && i <= math.MaxInt32
	case "uint", "uint64":
		return i >= 0
	case "uint8":
		return i >= 0 && i <= math.MaxUint8
	case "uint16":
		return i >= 0 && i <= math.MaxUint16
	case "uint32":
		return i >= 0 && i <= math.MaxUint32
	}
	return false
}

// IntReps lists the integer representations.
var IntReps = []string{"", "int8", "int16", "int32", "int64", "uint", "uint8", "uint16", "uint32", "uint64"}

func (s *Spec) elemKinds() string {
	k := ""
	for i, e := range s.E {
		ek := e.K
		if e.Drop > 0 || e.Ptr || (e.R != "" && e.K != "arr" && e.K != "map") {
			ek = "mixed"
		}
		if i == 0 {
			k = ek
		} else if k != ek {
			return "mixed"
		}
	}
	return k
}

// ArrReps lists the representations this array spec can take.
func (s *Spec) ArrReps() []string {
	// (namedany: a named slice type whose elements are any - what a BSON or JSON library may hand out)
	reps := []string{"", "array", "namedany"}
	switch s.elemKinds() {
	case "int":
		reps = append(reps, "typed")
		// slices of the other integer widths that hold every element
		for _, w := range typedWidths {
			fits := true
			for _, e := range s.E {
				fits = fits && e.U == 0 && w.fits(e.I)
			}
			if fits && len(s.E) > 0 {
				reps = append(reps, "typed:"+w.name)
			}
		}
	case "float":
		reps = append(reps, "typed")
		exact := len(s.E) > 0
		for _, e := range s.E {
			exact = exact && float64(float32(e.F)) == e.F
		}
		if exact {
			reps = append(reps, "typed:float32")
		}
	case "str":
		reps = append(reps, "typed")
	case "map":
		ok := true
		for _, e := range s.E {
			if e.R != "" {
				ok = false
			}
		}
		if ok {
			reps = append(reps, "typed")
		}
	}
	if s.isInterval() {
		reps = append(reps, "range")
	}
	return reps
}

type typedWidth struct {
	name string
	t    reflect.Type
	fits func(int64) bool
}

// (no []uint8: a byte slice is a string to Liquid)
var typedWidths = []typedWidth{
	{"int8", reflect.TypeOf(int8(0)), func(i int64) bool { return i >= -128 && i <= 127 }},
	{"int32", reflect.TypeOf(int32(0)), func(i int64) bool { return i >= -1<<31 && i < 1<<31 }},
	{"int64", reflect.TypeOf(int64(0)), func(i int64) bool { return true }},
	{"uint16", reflect.TypeOf(uint16(0)), func(i int64) bool { return i >= 0 && i < 1<<16 }},
	{"uint", reflect.TypeOf(uint(0)), func(i int64) bool { return i >= 0 }},
}

func (s *Spec) isInterval() bool {
	if len(s.E) == 0 {
		return false
	}
	for i, e := range s.E {
		if e.K != "int" || e.R != "" || e.Drop > 0 || e.Ptr || e.U != 0 {
			return false
		}
		if i > 0 && e.I != s.E[i-1].I+1 {
			return false
		}
	}
	return true
}

func (s *Spec) realiseArr() any {
	switch s.R {
	case "namedany":
		out := make(namedList, len(s.E), len(s.E)+s.Cap)
		for i, e := range s.E {
			out[i] = e.Realise()
		}
		return out
	case "nilslice":
		if len(s.E) == 0 {
			return []string(nil) // a nil typed slice: an empty array as far as Liquid is concerned
		}
	case "emptystrings":
		if len(s.E) == 0 {
			return []string{}
		}
	case "typed:float32":
		if s.elemKinds() == "float" {
			out := make([]float32, len(s.E), len(s.E)+s.Cap)
			for i, e := range s.E {
				out[i] = float32(e.F)
			}
			return out
		}
	case "typed:int8", "typed:int32", "typed:int64", "typed:uint16", "typed:uint":
		for _, w := range typedWidths {
			if "typed:"+w.name != s.R || s.elemKinds() != "int" {
				continue
			}
			out := reflect.MakeSlice(reflect.SliceOf(w.t), len(s.E), len(s.E)+s.Cap)
			for i, e := range s.E {
				switch w.t.Kind() {
				case reflect.Uint16, reflect.Uint:
					out.Index(i).SetUint(uint64(e.I))
				default:
					out.Index(i).SetInt(e.I)
				}
			}
			return out.Interface()
		}
	case "typed":
		switch s.elemKinds() {
		case "int":
			out := make([]int, len(s.E), len(s.E)+s.Cap)
			for i, e := range s.E {
				out[i] = int(e.I)
			}
			return out
		case "str":
			out := make([]string, len(s.E), len(s.E)+s.Cap)
			for i, e := range s.E {
				out[i] = e.S
			}
			return out
		case "float":
			out := make([]float64, len(s.E), len(s.E)+s.Cap)
			for i, e := range s.E {
				out[i] = e.F
			}
			return out
		case "map":
			out := make([]map[string]any, len(s.E), len(s.E)+s.Cap)
			for i, e := range s.E {
				out[i] = e.Realise().(map[string]any)
			}
			return out
		}
	case "array":
		at := reflect.ArrayOf(len(s.E), reflect.TypeOf((*any)(nil)).Elem())
		av := reflect.New(at).Elem()
		for i, e := range s.E {
			if v := e.Realise(); v != nil {
				av.Index(i).Set(reflect.ValueOf(v))
			}
		}
		return av.Interface()
	case "range":
		if s.isInterval() {
			return values.NewRange(int(s.E[0].I), int(s.E[len(s.E)-1].I))
		}
	}
	out := make([]any, len(s.E), len(s.E)+s.Cap)
	for i, e := range s.E {
		out[i] = e.Realise()
	}
	return out
}

// MapReps lists the representations this map spec can take.
func (s *Spec) MapReps() []string {
	reps := []string{"", "mapslice"}
	switch s.elemKinds() {
	case "int", "str":
		if len(s.E) > 0 {
			reps = append(reps, "typed")
		}
	}
	return reps
}

func (s *Spec) realiseMap() any {
	switch s.R {
	case "typed":
		switch s.elemKinds() {
		case "int":
			out := make(map[string]int, s.Cap)
			for i, k := range s.Keys {
				out[k] = int(s.E[i].I)
			}
			return out
		case "str":
			out := make(map[string]string, s.Cap)
			for i, k := range s.Keys {
				out[k] = s.E[i].S
			}
			return out
		}
	case "anykey":
		// what yaml.v2 and other generic decoders hand out: string keys in a map[any]any
		out := make(map[any]any, s.Cap)
		for i, k := range s.Keys {
			out[k] = s.E[i].Realise()
		}
		return out
	case "namedkey":
		out := make(map[namedKey]any, s.Cap)
		for i, k := range s.Keys {
			out[namedKey(k)] = s.E[i].Realise()
		}
		return out
	case "mapslice":
		out := make(yaml.MapSlice, 0, len(s.E))
		for i, k := range s.Keys {
			out = append(out, yaml.MapItem{Key: k, Value: s.E[i].Realise()})
		}
		return out
	}
	out := make(map[string]any, s.Cap)
	for i, k := range s.Keys {
		out[k] = s.E[i].Realise()
	}
	return out
}

// Bindings is a named set of specs.
type Bindings map[string]*Spec

// Realise builds the Go binding map.
func (b Bindings) Realise() map[string]any {
	out := make(map[string]any, len(b))
	for k, s := range b {
		out[k] = s.Realise()
	}
	return out
}

// Logical builds the model-side environment.
func (b Bindings) Logical() map[string]any {
	out := make(map[string]any, len(b))
	for k, s := range b {
		out[k] = s.Logical()
	}
	return out
}

// Clone deep-copies the bindings.
func (b Bindings) Clone() Bindings {
	out := make(Bindings, len(b))
	for k, s := range b {
		out[k] = s.Clone()
	}
	return out
}

// Fingerprint is a deterministic deep description of a Go value: types, sorted
// map keys, pointer targets, slice length and contents. Two fingerprints of the
// same bindings taken before and after a render are equal iff nothing reachable
// was modified.
func Fingerprint(v any) string {
	var sb strings.Builder
	fp(&sb, reflect.ValueOf(v), 0)
	return sb.String()
}

func fp(sb *strings.Builder, v reflect.Value, depth int) {
	if !v.IsValid() {
		sb.WriteString("nil")
		return
	}
	if depth > 40 {
		sb.WriteString("…")
		return
	}
	if v.CanInterface() {
		if t, ok := v.Interface().(time.Time); ok {
			fmt.Fprintf(sb, "time(%d)", t.UnixNano())
			return
		}
	}
	switch v.Kind() {
	case reflect.Interface:
		if v.IsNil() {
			sb.WriteString("nil")
			return
		}
		fp(sb, v.Elem(), depth+1)
	case reflect.Ptr:
		if v.IsNil() {
			fmt.Fprintf(sb, "(%s)nil", v.Type())
			return
		}
		sb.WriteString("&")
		fp(sb, v.Elem(), depth+1)
	case reflect.Slice, reflect.Array:
		if v.Kind() == reflect.Slice && v.Type().Elem().Kind() == reflect.Uint8 {
			fmt.Fprintf(sb, "%s(%q)", v.Type(), v.Bytes())
			return
		}
		fmt.Fprintf(sb, "%s[%d]{", v.Type(), v.Len())
		n := v.Len()
		if v.Kind() == reflect.Slice && v.Cap() > n && v.Cap()-n <= 64 {
			// the spare capacity belongs to the caller's backing array too: an append that
			// writes into it is a modification (the caller may hold a longer slice of it)
			v = v.Slice(0, v.Cap())
		}
		for i := 0; i < v.Len(); i++ {
			if i == n {
				sb.WriteString(" |cap: ")
			} else if i > 0 {
				sb.WriteString(",")
			}
			fp(sb, v.Index(i), depth+1)
		}
		sb.WriteString("}")
	case reflect.Map:
		fmt.Fprintf(sb, "%s[%d]{", v.Type(), v.Len())
		keys := v.MapKeys()
		ks := make([]string, len(keys))
		idx := make([]int, len(keys))
		for i, k := range keys {
			var kb strings.Builder
			fp(&kb, k, depth+1)
			ks[i] = kb.String()
			idx[i] = i
		}
		sort.Slice(idx, func(a, b int) bool { return ks[idx[a]] < ks[idx[b]] })
		for n, i := range idx {
			if n > 0 {
				sb.WriteString(",")
			}
			sb.WriteString(ks[i])
			sb.WriteString(":")
			fp(sb, v.MapIndex(keys[i]), depth+1)
		}
		sb.WriteString("}")
	case reflect.Struct:
		fmt.Fprintf(sb, "%s{", v.Type())
		for i := 0; i < v.NumField(); i++ {
			if i > 0 {
				sb.WriteString(",")
			}
			sb.WriteString(v.Type().Field(i).Name)
			sb.WriteString(":")
			fp(sb, v.Field(i), depth+1)
		}
		sb.WriteString("}")
	case reflect.String:
		fmt.Fprintf(sb, "%s(%q)", v.Type(), v.String())
	case reflect.Bool:
		fmt.Fprintf(sb, "%v", v.Bool())
	case reflect.Int, reflect.Int8, reflect.Int16, reflect.Int32, reflect.Int64:
		fmt.Fprintf(sb, "%s(%d)", v.Type(), v.Int())
	case reflect.Uint, reflect.Uint8, reflect.Uint16, reflect.Uint32, reflect.Uint64, reflect.Uintptr:
		fmt.Fprintf(sb, "%s(%d)", v.Type(), v.Uint())
	case reflect.Float32, reflect.Float64:
		fmt.Fprintf(sb, "%s(%v)", v.Type(), v.Float())
	case reflect.Func, reflect.Chan, reflect.UnsafePointer:
		fmt.Fprintf(sb, "%s(%v)", v.Type(), v.IsNil())
	default:
		fmt.Fprintf(sb, "%s(?)", v.Type())
	}
}

// Canon2 returns the bindings with every representation choice removed.
func (b Bindings) Canon2() Bindings {
	out := make(Bindings, len(b))
	for k, s := range b {
		out[k] = s.Canon()
	}
	return out
}
