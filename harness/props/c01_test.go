package props

import (
	"fmt"
	"regexp"
	"strings"
	"testing"
	"time"

	"github.com/osteele/liquid"
	"pgregory.net/rapid"

	"verifharness/hx"
)

// ---- C01: parsing and rendering never panic; output xor SourceError; bounded time ----

var c01U = hx.Universe()
var c01Index = hx.UniverseIndex()

// c01Judge applies the C01 oracle to one parse+render through ParseAndRender.
func c01Judge(src string, binds map[string]any, spelledLoops bool) *hx.Violation {
	var out []byte
	var err liquid.SourceError
	start := time.Now()
	pi := hx.Guard(func() {
		out, err = liquid.NewEngine().ParseAndRender([]byte(src), binds)
	})
	el := time.Since(start)
	if pi != nil {
		return hx.V("panic@"+pi.Site, "%s panicked: %v", trunc(src, 300), pi)
	}
	if err != nil {
		var msg string
		pi = hx.Guard(func() {
			msg = err.Error()
			_ = err.Path()
			_ = err.LineNumber()
			_ = err.Cause()
		})
		if pi != nil {
			return hx.V("error-accessor-panic@"+pi.Site, "%s returned an error whose accessors panic: %v", trunc(src, 300), pi)
		}
		if msg == "" {
			return hx.V("empty-error", "%s returned an error with an empty message", trunc(src, 300))
		}
		if len(out) != 0 {
			return hx.V("output-with-error", "%s returned output %q together with error %v", trunc(src, 300), trunc(string(out), 80), err)
		}
	}
	if !spelledLoops && el > 20*time.Second {
		return hx.V("slow", "%s took %v although it spells out no loop or range", trunc(src, 300), el)
	}
	return nil
}

func trunc(s string, n int) string {
	if len(s) > n {
		return s[:n] + fmt.Sprintf("…(%d bytes)", len(s))
	}
	return s
}

// ---- (b) bounded-exhaustive matrix over the boundary universe ----

type c01MatCase struct {
	Form string   `json:"form"`
	Name string   `json:"name,omitempty"`
	R    string   `json:"r"`
	A    []string `json:"a,omitempty"`
}

func (c *c01MatCase) build() (src string, binds map[string]any, ok bool) {
	binds = map[string]any{}
	get := func(name string) (hx.UVal, bool) { u, ok := c01Index[name]; return u, ok }
	r, ok := get(c.R)
	if !ok {
		return "", nil, false
	}
	binds["r"] = r.Make()
	args := []string{}
	for i, a := range c.A {
		u, ok := get(a)
		if !ok {
			return "", nil, false
		}
		n := fmt.Sprintf("a%d", i)
		binds[n] = u.Make()
		args = append(args, n)
	}
	a0 := "a0"
	switch c.Form {
	case "filter":
		src = "{{ r | " + c.Name
		if len(args) > 0 {
			src += ": " + strings.Join(args, ", ")
		}
		src += " }}"
	case "filter-assign": // result of the filter stored and consumed again
		src = "{% assign q = r | " + c.Name
		if len(args) > 0 {
			src += ": " + strings.Join(args, ", ")
		}
		src += " %}{{ q }}{{ q | size }}{% for i in q %}{{ i }}{% endfor %}"
	case "op":
		src = "{% if r " + c.Name + " a0 %}T{% else %}F{% endif %}{{ r " + c.Name + " a0 }}{% unless a0 " + c.Name + " r %}U{% endunless %}"
	case "index":
		src = "{{ r[a0] }}{{ r[a0].size }}{{ r[a0][a0] }}"
	case "prop":
		src = "{{ r." + c.Name + " }}{{ r[\"" + c.Name + "\"] }}{{ r." + c.Name + "." + c.Name + " }}"
	case "loopmod":
		src = "{% for i in r " + c.Name + ": a0 %}{{ i }}{{ forloop.index }}{% else %}E{% endfor %}{% tablerow i in r " + c.Name + ": a0 %}{{ i }}{% endtablerow %}"
	case "cols":
		src = "{% tablerow i in r cols: a0 %}{{ i }}{% endtablerow %}"
	case "loop":
		src = "{% for i in r reversed %}{{ i }}{{ forloop.rindex }}{% cycle 'a', 'b' %}{% else %}E{% endfor %}{% tablerow i in r %}{{ i }}{% endtablerow %}{% for i in r %}{% for j in i %}{{ j }}{% endfor %}{% endfor %}"
	case "cycle2":
		// two cycle tags in one loop (same or different group, different lengths), c.Name = "i,j"
		var i, j int
		fmt.Sscanf(c.Name, "%d,%d", &i, &j)
		if i >= len(c01Cycles) || j >= len(c01Cycles) {
			return "", nil, false
		}
		src = "{% for i in r %}{% cycle " + c01Cycles[i] + " %}{% cycle " + c01Cycles[j] + " %}{% for k in (1..2) %}{% cycle " + c01Cycles[j] + " %}{% endfor %}{% endfor %}{% tablerow i in r %}{% cycle " + c01Cycles[i] + " %}{% cycle " + c01Cycles[j] + " %}{% endtablerow %}"
	case "case":
		src = "{% case r %}{% when a0 %}W{% when 1, a0, r %}X{% else %}E{% endcase %}"
	case "range":
		src = "{% for i in (r..a0) %}{{ i }}{% endfor %}{{ (r..a0) | join }}{{ (r..a0) | size }}{% assign q = (r..a0) %}{{ q | first }}{{ q.b }}{{ q[0] }}"
	case "range-first", "range-last", "range-size", "range-index":
		// a range too large to be held in memory, used without a loop: an answer or an error, at once
		src = map[string]string{"range-first": "{{ (r..a0) | first }}", "range-last": "{{ (r..a0) | last }}", "range-size": "{{ (r..a0) | size }}{{ (r..a0).size }}", "range-index": "{% assign q = (r..a0) %}{{ q[0] }}{{ q | reverse | first }}"}[c.Form]
	case "include":
		src = "{% include r %}"
	case "object":
		src = "{{ r }}{% assign q = r %}{{ q }}{% capture c %}{{ r }}{% endcapture %}{{ c | size }}{% if r %}T{% endif %}{% if r and r %}A{% endif %}{% if r or false %}O{% endif %}"
	default:
		return "", nil, false
	}
	_ = a0
	return src, binds, true
}

// hugeRange reports whether (r..a0) could exceed 10^6 elements.
func (c *c01MatCase) hugeRange() bool {
	if c.Form != "range" || len(c.A) == 0 {
		return false
	}
	val := func(n string) (int64, bool) {
		u := c01Index[n]
		if u.Spec == nil || u.Spec.K != "int" {
			return 0, false
		}
		if u.Spec.U != 0 {
			return 0, false // conversion of a uint64 beyond int64 is an error path, not a range
		}
		return u.Spec.I, true
	}
	a, ok1 := val(c.R)
	b, ok2 := val(c.A[0])
	if !ok1 || !ok2 {
		return false
	}
	if b < a {
		return false
	}
	return uint64(b-a) > 1000000
}

var c01Matrix = hx.Define("c01.matrix", func(c *c01MatCase, s *hx.Sub) *hx.Violation {
	if c.hugeRange() {
		s.Exclude()
		return nil
	}
	src, binds, ok := c.build()
	if !ok {
		return hx.V("harness-error", "bad matrix case %+v", c)
	}
	loops := c.Form == "loopmod" || c.Form == "loop" || c.Form == "range" || c.Form == "cols" || c.Form == "cycle2"
	if v := c01Judge(src, binds, loops); v != nil {
		v.Message = fmt.Sprintf("form=%s name=%s r=%s a=%v: %s", c.Form, c.Name, c.R, c.A, v.Message)
		return v
	}
	s.NT()
	if s.WantSample() {
		s.Sample(map[string]any{"template": src, "r": c.R, "a": c.A})
	}
	return nil
})

var c01Cycles = []string{"'a', 'b', 'c'", "'x'", "'p', 'q'", `"g": 'a', 'b', 'c'`, `"g": 'x'`, `'g': '1', '2'`, `"h": 'y', 'z'`, "'a', 'b', 'c', 'd', 'e'", `"": 'm', 'n'`}

var c01Ops = []string{"==", "!=", "<", ">", "<=", ">=", "contains", "and", "or"}
var c01TwoArg = []string{"slice", "truncate", "truncatewords", "replace", "replace_first", "date", "sort", "default", "map", "round", "join", "split", "concat"}

// ---- (a) hostile grammar programs ----

type c01SrcCase struct {
	Src   string `json:"src"`
	Binds string `json:"binds"` // name of the binding environment
}

var smallEnvNames = []string{"nil", "true", "0", "1", "-1", "2", "-7", "2.5", `""`, `"abc"`, `"12"`, `" pad "`, `"héé"`, "[]", "[3,1,2]", "[nil,1,nil]", "[[1,2],[3]]", "[mixed]", "[maps]", "{}", "{a:1,b:2}", "{size:9}", "mapslice", "drop(1)", "drop([1,drop(2)])", "*int(5)", "time", "[]byte", "struct", "*struct", "map[int]string", "map[any]any", "range(1..3)", "[]string", "[3]int", "(*int)(nil)", "struct{ptr,map}", "[]*int", "uint8(255)", "float32(1.25)"}

// c01Env builds a binding environment. "hostile" binds every universe member
// (u0..uN and some common names); "small" binds only values without huge integers.
func c01Env(kind string) map[string]any {
	b := map[string]any{}
	switch kind {
	case "hostile":
		for i, u := range c01U {
			b[fmt.Sprintf("u%d", i)] = u.Make()
		}
	default:
		for i, n := range smallEnvNames {
			b[fmt.Sprintf("u%d", i)] = c01Index[n].Make()
		}
	}
	// names the repository's own test templates use
	b["x"] = 123
	b["array"] = []string{"first", "second", "third"}
	b["ar"] = []string{"first", "second", "third"}
	b["map"] = map[string]any{"a": 1}
	b["hash"] = map[string]any{"a": "first", "b": map[string]any{"c": "d"}, "c": []string{"r", "g", "b"}}
	b["page"] = map[string]any{"title": "Introduction", "author": "ab", "category": "misc"}
	b["products"] = []string{"Cool Shirt", "Alien Poster", "Batman Poster"}
	b["animals"] = []string{"zebra", "octopus", "giraffe", "Sally Snake"}
	b["pages"] = []any{map[string]any{"category": "business", "weight": 10}, map[string]any{"category": "celebrities"}, map[string]any{"weight": 3}}
	b["obj"] = map[string]any{"a": 1, "b": []any{1, 2}, "c": map[string]any{"d": "e"}}
	b["cols"], b["limit"], b["offset"] = 2, 2, 1
	b["loopmods"] = map[string]any{"limit": 2, "offset": 1, "cols": 2}
	b["str"], b["var"], b["test"] = "a string", "value", true
	return b
}

var digitRun5 = regexp.MustCompile(`[0-9]{5,}`)

// excludedSource: inputs that are legitimately unbounded or would leave the sandbox.
func c01Excluded(src string) bool {
	if strings.Contains(src, "..") && digitRun5.MatchString(src) {
		// a range that can exceed 10^6 elements: cost may scale with it. Decided per tag/object.
		for _, tok := range hasTagOrObj.FindAllString(src, -1) {
			if strings.Contains(tok, "..") && digitRun5.MatchString(tok) {
				return true
			}
		}
		if !hasTagOrObj.MatchString(src) {
			return false
		}
		// a big literal assigned in one tag and used as an endpoint in another
		return strings.Contains(src, "assign") || strings.Contains(src, "capture")
	}
	if i := strings.Index(src, "include"); i >= 0 {
		rest := src[i:]
		if strings.Contains(rest, "/") || strings.Contains(rest, "..") || strings.Contains(rest, "\\") {
			return true
		}
	}
	return false
}

var hasTagOrObj = regexp.MustCompile(`(?s)\{\{.*?\}\}|\{%.*?%\}`)

var c01Source = hx.Define("c01.source", func(c *c01SrcCase, s *hx.Sub) *hx.Violation {
	if c01Excluded(c.Src) {
		s.Exclude()
		return nil
	}
	env := c.Binds
	if strings.Contains(c.Src, "..") && env == "hostile" {
		env = "small" // ranges over variables: only small-valued bindings
	}
	if v := c01Judge(c.Src, c01Env(env), true); v != nil {
		return v
	}
	if hasTagOrObj.MatchString(c.Src) {
		s.NTKey(c.Src)
	}
	if s.WantSample() {
		s.Sample(trunc(c.Src, 400))
	}
	return nil
})

type hostileGen struct {
	t       *rapid.T
	filters []string
	depth   int
	loops   int
	inCap   bool
}

var hostileLits = []string{"0", "1", "-1", "2", "7", "-7", "99999999999999999999", "-9223372036854775808", "9223372036854775807", "2147483648", "1.5", "-0.5", "1e5", "007", "-0", "1.", ".5", "''", `""`, `"abc"`, "'a b'", `"é😀"`, "nil", "true", "false", "empty", "blank", `"%"`, `"..."`, `" "`, "1000", "50", "1001", "-2", "3.999"}
var hostileProps = []string{"size", "first", "last", "a", "b", "title", "Title", "name", "inner", "wall", "P", "M", "x-y", "ok?", "0",
	// promoted fields, and the exported zero-argument methods of time.Time by result shape: one value, two values, three values, (value, error)
	"X", "Y", "k", "Year", "Zone", "ISOWeek", "Clock", "Date", "Location", "UTC", "String", "MarshalJSON", "IsZero"}

func (g *hostileGen) pick(l string, n int) int { return rapid.IntRange(0, n-1).Draw(g.t, l) }

func (g *hostileGen) atom() string {
	switch g.pick("atom", 10) {
	case 0, 1, 2:
		return fmt.Sprintf("u%d", g.pick("u", len(c01U)))
	case 3, 4:
		return hostileLits[g.pick("lit", len(hostileLits))]
	case 5:
		return []string{"undefined_name", "x", "array", "page", "hash", "forloop", "i", "and", "contains", "in", "or", "nil2", "a-1", "ok?"}[g.pick("nm", 14)]
	case 6:
		return fmt.Sprintf("(%d..%d)", g.pick("ra", 8)-2, g.pick("rb", 12)-2)
	default:
		return fmt.Sprintf("u%d", g.pick("u2", len(smallEnvNames)))
	}
}

func (g *hostileGen) expr(d int) string {
	e := g.atom()
	for i, n := 0, g.pick("post", 3); i < n; i++ {
		switch g.pick("pk", 3) {
		case 0:
			e += "." + hostileProps[g.pick("prop", len(hostileProps))]
		case 1:
			e += "[" + g.atom() + "]"
		default:
			e += `["` + hostileProps[g.pick("prop2", len(hostileProps))] + `"]`
		}
	}
	return e
}

func (g *hostileGen) filtered(d int) string {
	e := g.expr(d)
	for i, n := 0, g.pick("nf", 4); i < n; i++ {
		name := "no_such_filter"
		if g.pick("known", 12) > 0 {
			name = g.filters[g.pick("f", len(g.filters))]
		}
		e += " | " + name
		if k := g.pick("nargs", 4); k > 0 {
			var args []string
			for j := 0; j < k; j++ {
				args = append(args, g.expr(0))
			}
			e += ": " + strings.Join(args, ", ")
		}
	}
	return e
}

func (g *hostileGen) cond() string {
	c := g.expr(1)
	switch g.pick("ck", 5) {
	case 0:
		return g.filtered(1)
	case 1:
		return c
	default:
		c += " " + c01Ops[g.pick("op", len(c01Ops))] + " " + g.expr(1)
		if g.pick("more", 3) == 0 {
			c += " " + []string{"and", "or"}[g.pick("ao", 2)] + " " + g.cond()
		}
		return c
	}
}

func (g *hostileGen) block(d int) string {
	var sb strings.Builder
	for i, n := 0, 1+g.pick("bl", 4); i < n; i++ {
		sb.WriteString(g.stmt(d))
	}
	return sb.String()
}

func (g *hostileGen) hy() (string, string) {
	l, r := "", ""
	if g.pick("hl", 6) == 0 {
		l = "-"
	}
	if g.pick("hr", 6) == 0 {
		r = "-"
	}
	return l, r
}

func (g *hostileGen) tag(body string) string {
	l, r := g.hy()
	return "{%" + l + " " + body + " " + r + "%}"
}

func (g *hostileGen) stmt(d int) string {
	k := g.pick("stmt", 20)
	if d >= 3 && k >= 8 && k <= 14 {
		k = 0
	}
	switch k {
	case 0, 1:
		return []string{"x", " ", "\n", "text ", "}}", "{", "%}"}[g.pick("txt", 7)]
	case 2, 3, 4, 5:
		l, r := g.hy()
		return "{{" + l + " " + g.filtered(1) + " " + r + "}}"
	case 6:
		if g.pick("spoof", 6) == 0 {
			// a template may overwrite the loop record the loop tags rely on
			return g.tag("assign forloop = " + g.filtered(0))
		}
		return g.tag("assign t" + fmt.Sprint(g.pick("tv", 3)) + " = " + g.filtered(1))
	case 7:
		if g.inCap {
			return "{{ u0 }}"
		}
		return "{{ t" + fmt.Sprint(g.pick("tv", 3)) + " }}"
	case 8:
		s := g.tag("if "+g.cond()) + g.block(d+1)
		for i, n := 0, g.pick("elsifs", 3); i < n; i++ {
			s += g.tag("elsif "+g.cond()) + g.block(d+1)
		}
		if g.pick("else", 2) == 0 {
			s += g.tag("else") + g.block(d+1)
		}
		return s + g.tag("endif")
	case 9:
		return g.tag("unless "+g.cond()) + g.block(d+1) + g.tag("endunless")
	case 10:
		s := g.tag("case " + g.expr(1))
		for i, n := 0, 1+g.pick("whens", 3); i < n; i++ {
			s += g.tag("when "+g.expr(0)+", "+g.expr(0)) + g.block(d+1)
		}
		if g.pick("else", 2) == 0 {
			s += g.tag("else") + g.block(d+1)
		}
		return s + g.tag("endcase")
	case 11, 12:
		if g.loops >= 3 {
			return "L"
		}
		g.loops++
		tag := "for"
		if g.pick("tr", 4) == 0 {
			tag = "tablerow"
		}
		h := tag + " i in " + g.filtered(0)
		if g.pick("rev", 4) == 0 {
			h += " reversed"
		}
		for _, m := range []string{"offset", "limit", "cols"} {
			if g.pick(m, 4) == 0 {
				h += " " + m + ": " + g.expr(0)
			}
		}
		s := g.tag(h) + g.block(d+1)
		if tag == "for" && g.pick("else", 3) == 0 {
			s += g.tag("else") + g.block(d+1)
		}
		g.loops--
		return s + g.tag("end"+tag)
	case 13:
		if g.inCap {
			return "c"
		}
		g.inCap = true
		s := g.tag("capture c"+fmt.Sprint(g.pick("cv", 2))) + g.block(d+1) + g.tag("endcapture")
		g.inCap = false
		return s
	case 14:
		return g.tag("comment") + g.block(d+1) + g.tag("endcomment")
	case 15:
		return g.tag("raw") + []string{"{{ x }}", "{% if %}", "text", ""}[g.pick("raw", 4)] + g.tag("endraw")
	case 16:
		return g.tag([]string{"break", "continue"}[g.pick("bc", 2)])
	case 17:
		vals := append([]string{"1, 2", "u1", "", "'a' 'b'"}, c01Cycles...)
		s := g.tag("cycle " + vals[g.pick("cy", len(vals))])
		if g.pick("cy2", 2) == 0 {
			s += g.tag("cycle " + vals[g.pick("cyb", len(vals))])
		}
		return s
	case 18:
		return g.tag("include " + g.expr(0))
	default:
		// structural damage: stray / unknown tags
		return g.tag([]string{"endif", "else", "endfor", "elsif true", "when 1", "nosuchtag x", "endraw", "endcomment", "if", "for", "for i", "assign", "assign x", "capture", "case"}[g.pick("stray", 15)])
	}
}

// ---- (c) mutations of the repository's own test templates ----

var tokRe = regexp.MustCompile(`(?s)\{\{.*?\}\}|\{%.*?%\}`)
var litRe = regexp.MustCompile(`-?[0-9]+(\.[0-9]+)?|"[^"]*"|'[^']*'`)

func splitToks(s string) []string {
	var out []string
	p := 0
	for _, m := range tokRe.FindAllStringIndex(s, -1) {
		if m[0] > p {
			out = append(out, s[p:m[0]])
		}
		out = append(out, s[m[0]:m[1]])
		p = m[1]
	}
	if p < len(s) {
		out = append(out, s[p:])
	}
	return out
}

func mutate(t *rapid.T, corpus []string) string {
	base := rapid.SampledFrom(corpus).Draw(t, "base")
	for i, n := 0, 1+rapid.IntRange(0, 2).Draw(t, "nmut"); i < n; i++ {
		toks := splitToks(base)
		if len(toks) == 0 {
			break
		}
		k := rapid.IntRange(0, len(toks)-1).Draw(t, "tok")
		switch rapid.IntRange(0, 7).Draw(t, "mut") {
		case 0: // delete a token
			toks = append(toks[:k:k], toks[k+1:]...)
		case 1: // duplicate
			toks = append(toks[:k+1:k+1], toks[k:]...)
		case 2: // swap
			j := rapid.IntRange(0, len(toks)-1).Draw(t, "tok2")
			toks[k], toks[j] = toks[j], toks[k]
		case 3: // literal -> boundary literal
			lits := litRe.FindAllStringIndex(toks[k], -1)
			if len(lits) > 0 {
				m := lits[rapid.IntRange(0, len(lits)-1).Draw(t, "lit")]
				toks[k] = toks[k][:m[0]] + rapid.SampledFrom(hostileLits).Draw(t, "newlit") + toks[k][m[1]:]
			}
		case 4: // splice with another template
			other := splitToks(rapid.SampledFrom(corpus).Draw(t, "other"))
			if len(other) > 0 {
				j := rapid.IntRange(0, len(other)-1).Draw(t, "cut")
				toks = append(toks[:k:k], other[j:]...)
			}
		case 5: // delimiter corruption
			if len(toks[k]) > 1 {
				j := rapid.IntRange(0, len(toks[k])-1).Draw(t, "byte")
				toks[k] = toks[k][:j] + toks[k][j+1:]
			}
		case 6: // truncate
			s := strings.Join(toks, "")
			if len(s) > 0 {
				return s[:rapid.IntRange(0, len(s)).Draw(t, "cutat")]
			}
		case 7: // insert a hostile token
			ins := rapid.SampledFrom([]string{"{{", "}}", "{%", "%}", "{%-", "-%}", "{% endif %}", "{% else %}", "{{ x | slice: 5 }}", "{% raw %}", "{% comment %}", "{{-", "-}}", "{% for i in (1..3) %}", "{% endfor %}"}).Draw(t, "ins")
			toks = append(toks[:k:k], append([]string{ins}, toks[k:]...)...)
		}
		base = strings.Join(toks, "")
	}
	return base
}

// ---- (d) byte strings biased by a dictionary of snippets ----

var dictSnippets = []string{
	"{{", "}}", "{%", "%}", "{{-", "-}}", "{%-", "-%}", " ", "\n", "|", ":", ",", ".", "[", "]", "(", ")", "..", "=", "==", "!=", "<", ">", "<=", ">=",
	"if ", "endif", "else", "elsif ", "unless ", "endunless", "case ", "when ", "endcase", "for i in ", "endfor", "tablerow i in ", "endtablerow",
	"assign v = ", "capture v", "endcapture", "comment", "endcomment", "raw", "endraw", "break", "continue", "cycle 'a', 'b'", "include ",
	"limit: ", "offset: ", "cols: ", "reversed", "and", "or", "contains", "nil", "true", "false", "'", "\"",
	"u1", "u3", "u13", "u14", "u17", "u19", "u20", "x", "array", "page.title", "forloop.index",
	"0", "1", "-1", "5", "99999999999999999999", "1.5", "2147483648", "-9223372036854775808",
	"u13 | slice: 5", "u9 | truncate: 3, 'é'", "u9 | truncatewords: -1", "u15 | uniq", "u15 | sort_natural", "u13 | sort: 'a'", "u3 | plus: u9", "u9 | split: ''", "(1..3)", "(3..1)", "u19 == u19", "u1 < u9",
	"%assign a = 1", "{%when 1", "%loop i in (3..5)", "{%cycle 'a'",
}

func genBytes(t *rapid.T, filters []string) string {
	var sb strings.Builder
	for i, n := 0, rapid.IntRange(1, 24).Draw(t, "n"); i < n; i++ {
		switch rapid.IntRange(0, 9).Draw(t, "k") {
		case 0:
			sb.Write(rapid.SliceOfN(rapid.Byte(), 1, 6).Draw(t, "raw"))
		case 1:
			sb.WriteString("| " + rapid.SampledFrom(filters).Draw(t, "f") + ": ")
		default:
			sb.WriteString(rapid.SampledFrom(dictSnippets).Draw(t, "d"))
		}
	}
	return sb.String()
}

func TestC01(t *testing.T) {
	col := hx.NewCollector("C01")
	defer col.Finish()
	col.Corpus()
	env := col.Env
	si, err := hx.ReadSrcInfo()
	if err != nil || len(si.Filters) == 0 {
		t.Fatalf("cannot read filter names from the repository: %v", err)
	}

	// (b) matrix
	mat := c01Matrix.On(col, fmt.Sprintf("bounded-exhaustive: every standard filter read from the repository's sources (%d) x receiver in U (%d boundary values of every kind and Go representation) x arity 0 and 1 (argument in U), arity 2 for filters that take two arguments (full U^2 in the thorough tier, a seeded sample in quick); every operator x U^2; index/property lookups, loop modifiers, case/when, ranges, include, object printing x U (x U). Oracle: no panic, output xor non-nil SourceError with callable accessors, no output with an error, returns promptly when no loop is spelled out. Every tuple is distinct by construction; ranges that could exceed 10^6 elements are excluded from the forms that iterate or print them and counted; ranges beyond 2^31 elements (incl. those whose length overflows) are still given to first / last / size / index / reverse, where nothing needs to iterate", len(si.Filters), len(c01U)), false)
	// every loop and range of the matrix is small (larger ones are excluded), so not returning is a violation
	mat.Hang = func(c *c01MatCase) string { return "hang:" + c.Form }
	idx := 0
	run := func(c *c01MatCase) {
		idx++
		if env.Mine(idx) {
			mat.Run(c)
		}
	}
	for _, f := range si.Filters {
		for _, r := range c01U {
			run(&c01MatCase{Form: "filter", Name: f, R: r.Name})
			run(&c01MatCase{Form: "filter-assign", Name: f, R: r.Name})
			for _, a := range c01U {
				run(&c01MatCase{Form: "filter", Name: f, R: r.Name, A: []string{a.Name}})
			}
		}
	}
	for i := range c01Cycles {
		for j := range c01Cycles {
			for _, r := range []string{"[3,1,2]", "[1]", "range(1..3)", "[]", "[mixed]", "{a:1,b:2}"} {
				run(&c01MatCase{Form: "cycle2", Name: fmt.Sprintf("%d,%d", i, j), R: r})
			}
		}
	}
	for _, r := range c01U {
		run(&c01MatCase{Form: "object", R: r.Name})
		run(&c01MatCase{Form: "loop", R: r.Name})
		run(&c01MatCase{Form: "include", R: r.Name})
		for _, p := range hostileProps {
			run(&c01MatCase{Form: "prop", Name: p, R: r.Name})
		}
		for _, a := range c01U {
			for _, op := range c01Ops {
				run(&c01MatCase{Form: "op", Name: op, R: r.Name, A: []string{a.Name}})
			}
			run(&c01MatCase{Form: "index", R: r.Name, A: []string{a.Name}})
			run(&c01MatCase{Form: "loopmod", Name: "limit", R: r.Name, A: []string{a.Name}})
			run(&c01MatCase{Form: "loopmod", Name: "offset", R: r.Name, A: []string{a.Name}})
			run(&c01MatCase{Form: "cols", R: r.Name, A: []string{a.Name}})
			run(&c01MatCase{Form: "case", R: r.Name, A: []string{a.Name}})
			run(&c01MatCase{Form: "range", R: r.Name, A: []string{a.Name}})
			// ranges of more than 2^31 elements (incl. those whose length overflows) where nothing iterates
			if r.Spec != nil && a.Spec != nil && r.Spec.K == "int" && a.Spec.K == "int" && r.Spec.U == 0 && a.Spec.U == 0 && a.Spec.I > r.Spec.I && uint64(a.Spec.I-r.Spec.I) > 1<<31 {
				for _, f := range []string{"range-first", "range-last", "range-size", "range-index"} {
					run(&c01MatCase{Form: f, R: r.Name, A: []string{a.Name}})
				}
			}
		}
	}
	// arity 2
	if env.Thorough() {
		for _, f := range c01TwoArg {
			for _, r := range c01U {
				for _, a := range c01U {
					for _, b := range c01U {
						run(&c01MatCase{Form: "filter", Name: f, R: r.Name, A: []string{a.Name, b.Name}})
					}
				}
			}
		}
	} else {
		names := make([]string, len(c01U))
		for i, u := range c01U {
			names[i] = u.Name
		}
		col.Rapid(mat.Sub, env.PerShard(300000), func(t *rapid.T) {
			c := &c01MatCase{Form: "filter", Name: rapid.SampledFrom(c01TwoArg).Draw(t, "f"), R: rapid.SampledFrom(names).Draw(t, "r"),
				A: []string{rapid.SampledFrom(names).Draw(t, "a"), rapid.SampledFrom(names).Draw(t, "b")}}
			if rapid.IntRange(0, 9).Draw(t, "three") == 0 {
				c.A = append(c.A, rapid.SampledFrom(names).Draw(t, "c"))
			}
			if v := mat.Run(c); v != nil {
				t.Fatalf("%s", v.Message)
			}
		})
	}

	// (a) hostile programs, (c) mutations, (d) bytes share one check (source + environment)
	srcRule := "rapid: (a) hostile grammar programs - every tag nested in every block, ill-typed/missing/extra filter arguments, boundary and oversized literals, undefined names, reserved words as names, stray and unknown tags, hyphens; (c) mutations of the %d template literals found in the repository's *_test.go files (token delete/duplicate/swap, literal -> boundary literal, splice, delimiter corruption, truncation, hostile insertions) plus truncation at every byte (exhaustive); (d) byte strings built from a dictionary of delimiters, tag/filter names, operators, boundary numbers and snippets. Bindings: every member of U. Same oracle as the matrix. Non-trivial: the source contains at least one complete tag or object; distinct by source. Excluded (counted): ranges next to a >= 5-digit literal, include arguments with path separators"
	srcChk := c01Source.On(col, fmt.Sprintf(srcRule, len(si.Templates)), false)
	srcChk.Hang = func(c *c01SrcCase) string {
		if strings.Contains(c.Src, "for") || strings.Contains(c.Src, "tablerow") || strings.Contains(c.Src, "..") {
			return "" // loops or ranges are spelled out: a time-out is inconclusive
		}
		return "hang:no-loop"
	}
	runSrc := func(t *rapid.T, src, binds string) {
		c := &c01SrcCase{Src: src, Binds: binds}
		col.Journal(hx.MustJSON(map[string]any{"check": "c01.source", "case": c}))
		v := srcChk.Run(c)
		if v != nil && t != nil {
			t.Fatalf("%s", v.Message)
		}
	}
	col.Rapid(srcChk.Sub, env.PerShard(env.Pick(300000, 3000000)), func(t *rapid.T) {
		g := &hostileGen{t: t, filters: si.Filters}
		srcChk.Sub.Class("hostile-program")
		runSrc(t, g.block(0), "hostile")
	})
	corpus := append([]string{}, si.Templates...)
	for _, e := range si.Exprs {
		corpus = append(corpus, "{{ "+e+" }}")
	}
	// truncation at every byte of every repository template (exhaustive)
	k := 0
	for _, tpl := range si.Templates {
		for cut := 0; cut <= len(tpl); cut++ {
			k++
			if env.Mine(k) {
				runSrc(nil, tpl[:cut], "small")
			}
		}
	}
	srcChk.Sub.Class("truncation-every-byte")
	col.Rapid(srcChk.Sub, env.PerShard(env.Pick(150000, 2000000)), func(t *rapid.T) {
		srcChk.Sub.Class("mutation")
		runSrc(t, mutate(t, corpus), "small")
	})
	col.Rapid(srcChk.Sub, env.PerShard(env.Pick(150000, 2000000)), func(t *rapid.T) {
		srcChk.Sub.Class("dictionary-bytes")
		runSrc(t, genBytes(t, si.Filters), "small")
	})
}
