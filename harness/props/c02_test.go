package props

import (
	"bytes"
	"encoding/base64"
	"encoding/json"
	"fmt"
	"math"
	"os"
	"os/exec"
	"path/filepath"
	"strings"
	"sync"
	"testing"

	"github.com/osteele/liquid"
	"github.com/osteele/liquid/render"
	"pgregory.net/rapid"

	"verifharness/hx"
)

// ---- C02: rendering is deterministic across runs, re-parses, engines and entry points ----

type c02Case struct {
	P      *hx.Program `json:"p"`
	Extra  []int       `json:"extra"` // indices into c02Snippets appended to the program
	Strict bool        `json:"strict,omitempty"`
	Child  bool        `json:"child,omitempty"`  // also render in a fresh process
	Delims bool        `json:"delims,omitempty"` // every engine is configured with Delims("<<", ">>", "<%", "%>") and the template is written with them
	Reconf bool        `json:"reconf,omitempty"` // with Delims: every other engine is used once before it is configured
	Hy     []bool      `json:"hy,omitempty"`     // whitespace-control hyphens on the generated part of the template
}

// c02Engine makes an engine in the case's configuration; used says whether it has been used under
// another configuration before (which must not matter).
func c02Engine(c *c02Case, used ...bool) *liquid.Engine {
	e := newEngine(nil)
	if c.Strict {
		e.StrictVariables()
	}
	if c.Delims {
		if c.Reconf && len(used) > 0 && used[0] {
			// the engine has parsed and rendered under the default configuration before it is given its own
			_, _ = e.ParseAndRenderString("x{{ 1 }}{% assign q = 2 %}", nil)
		}
		e.Delims("<<", ">>", "<%", "%>")
	}
	return e
}

// the names of the standard filters, read from the repository's sources once
var c02FilterNames = sync.OnceValue(func() []string {
	si, err := hx.ReadSrcInfo()
	if err != nil || len(si.Filters) == 0 {
		return []string{"upcase", "downcase", "size", "join", "first", "last", "append", "plus", "sort", "reverse", "default", "json"}
	}
	return si.Filters
})

// plainWriter is an io.Writer that is nothing else.
type plainWriter struct{ b []byte }

func (w *plainWriter) Write(p []byte) (int, error) { w.b = append(w.b, p...); return len(p), nil }

var c02Snippets = []string{
	"{% for kv in mnan %}{{ kv[1] }}{% endfor %}|{{ mnan | join: '' }}",
	"{{ an.Name }} is {{ an.Age }} [{{ an.Tags | join: ',' }}]", "{% if an.Age > 40 %}{{ an.Name | upcase }}{% endif %}{{ an.Tags.size }}",
	"{% for kv in m %}{{ kv[0] }}={{ kv[1] }};{% endfor %}",
	"{% tablerow kv in m cols: 2 %}{{ kv[0] }}{% endtablerow %}",
	"{% for kv in m reversed limit: 3 %}{{ kv[0] }}{{ forloop.index }}{% endfor %}",
	"{{ m | first | join: ':' }}", "{{ m | last | join }}", "{{ m | join: ',' }}", "{{ m | sort | join }}", "{{ m | reverse | join }}",
	"{{ m | uniq | size }}", "{{ m | concat: a | join }}", "{{ m | size }}{{ m.size }}", "{{ m | compact | join }}", "{{ m | sort_natural | join }}",
	"{{ m }}", "{{ m | json }}", "{{ m | inspect }}", "{{ nested | json }}", "{{ nested | map: 'a' | join }}",
	"{% for e in nested %}{% for kv in e %}{{ kv[0] }}{% endfor %}|{% endfor %}", "{% assign mm = m | reverse %}{{ mm | first | first }}",
	"{{ pa | join }}", "{{ pa }}", "{{ pa | first }}", "{{ pa | json }}", "{{ pa | reverse | join: '-' }}", "{{ pa | sort | join }}",
	"{{ dm | join }}", "{% for kv in dm %}{{ kv[0] }}{% endfor %}", "{{ mi | join }}", "{% for kv in mi %}{{ kv[0] }}:{{ kv[1] }} {% endfor %}",
	"{{ ma | join }}", "{% for kv in ma %}{{ kv[0] }} {% endfor %}", "{{ ms | join }}", "{% for kv in ms %}{{ kv[0] }}{% endfor %}",
	"{{ st.A }}{{ st.M.a }}", "{{ st.P }}", "{{ pst.A }}", "{{ m | default: 'none' | size }}", "{% if m contains 'a' %}has-a{% endif %}",
	"{% case m %}{% when m %}same{% endcase %}", "{{ 'now' | size }}",
	"{% for q in a %}{% cycle 'x', 'y', 'z' %}{{ 10 | divided_by: q }} {% endfor %}", "{% for kv in m %}{% cycle 'p', 'q' %}{{ 6 | divided_by: kv[1] }}{% endfor %}",
	"{{ '2024-02-29 13:14:15' | date: '%Y-%m-%d %H' }}",
	"{{ mx[1] }}|{{ mx[2] }}|{{ mx['1'] }}", "{% for kv in mx %}{{ kv[1] }} {% endfor %}", "{{ mx | join: ',' }}", "{{ mx | first | last }}{{ mx | last | last }}",
	"{% tablerow kv in mx cols: 3 %}{{ kv[1] }}{% endtablerow %}", "{% assign k1 = 1 %}{{ mx[k1] }}{{ mx[f1] }}",
}

type c02Struct struct {
	A int
	P *int
	M map[string]int
}

// c02Bindings realises the program's bindings anew: map insertion order and
// capacities vary with the variant, every allocation is fresh.
func c02Bindings(c *c02Case, variant int) map[string]any {
	b := c.P.Binds.Clone()
	for _, name := range sortedNames(b) {
		s := b[name]
		permute(s, variant)
	}
	out := b.Realise()
	m := b["m"]
	// companions built from the same logical content
	keys := append([]string{}, m.Keys...)
	vals := map[string]int{}
	for i, k := range m.Keys {
		vals[k] = int(m.E[i].I)
	}
	nested := []any{}
	for i := 0; i < 2; i++ {
		mm := make(map[string]any, variant%5)
		for j := range keys {
			k := keys[(j+variant+i)%len(keys)]
			mm[k] = vals[k] + i
		}
		nested = append(nested, mm)
	}
	out["nested"] = nested
	pa := []*int{}
	for _, k := range sortedStrings(keys) {
		v := vals[k]
		pa = append(pa, &v)
	}
	out["pa"] = pa
	// the same record as values of two struct types without a name, with the fields in another order
	if variant%2 == 0 {
		out["an"] = struct {
			Name string
			Age  int
			Tags []string
		}{"Bob", 41, []string{"x", "y"}}
	} else {
		out["an"] = struct {
			Age  int
			Tags []string
			Name string
		}{41, []string{"x", "y"}, "Bob"}
	}
	// every companion has the same logical content in every variant; only the order of insertion differs
	rank := map[string]int{}
	for i, k := range sortedStrings(keys) {
		rank[k] = i
	}
	dm := make(map[string]any, variant%7)
	for j := range keys {
		k := keys[(j+3*variant)%len(keys)]
		dm[k] = vals[k]
	}
	out["dm"] = hx.Drop{V: dm}
	mi := map[int]string{}
	ma := map[any]any{}
	for j := range keys {
		k := keys[(j+2*variant)%len(keys)]
		si := rank[k]
		mi[si*10+3] = k
		switch si % 3 {
		case 0:
			ma[k] = vals[k]
		case 1:
			ma[si*100] = k
		default:
			ma[float64(si)+0.5] = k
		}
	}
	out["mi"], out["ma"] = mi, ma
	// keys that are equal as Liquid values but differ in Go type, inserted in an order that varies
	mx := make(map[any]any, variant%4)
	type kv struct{ k, v any }
	pairs := []kv{{int64(1), "one"}, {float64(1), "uno"}, {int8(1), "eins"}, {"1", "str"}, {2, "two"}, {uint8(2), "zwei"}, {float32(2), "deux"}, {true, "yes"}}
	for j := range pairs {
		p := pairs[(j*3+variant)%len(pairs)]
		mx[p.k] = p.v
	}
	out["mx"], out["f1"] = mx, 1.0
	// numeric keys of several Go types with a NaN among them (what a YAML document with a .nan key decodes to)
	mnan := make(map[any]any, variant%3)
	nanPairs := []kv{{2.5, "a"}, {math.NaN(), "b"}, {2, "c"}, {int8(1), "d"}, {float32(0.5), "e"}}
	for j := range nanPairs {
		p := nanPairs[(j*2+variant)%len(nanPairs)]
		mnan[p.k] = p.v
	}
	out["mnan"] = mnan
	p := 7
	st := c02Struct{A: 1, P: &p, M: map[string]int{}}
	for j := range keys {
		k := keys[(j+variant)%len(keys)]
		st.M[k] = vals[k]
	}
	out["st"] = st
	out["pst"] = &c02Struct{A: 2, M: map[string]int{"a": 1}}
	return out
}

func sortedStrings(s []string) []string {
	out := append([]string{}, s...)
	for i := 1; i < len(out); i++ {
		for j := i; j > 0 && out[j] < out[j-1]; j-- {
			out[j], out[j-1] = out[j-1], out[j]
		}
	}
	return out
}

// permute rotates / reverses the insertion order of every map in the spec and varies capacity hints.
func permute(s *hx.Spec, variant int) {
	if s.K == "map" && len(s.Keys) > 1 {
		n := len(s.Keys)
		keys, es := make([]string, n), make([]*hx.Spec, n)
		for i := 0; i < n; i++ {
			j := (i + variant) % n
			if variant%2 == 1 {
				j = (n - 1 - i + variant) % n
			}
			keys[i], es[i] = s.Keys[j], s.E[j]
		}
		// an ordered map keeps its order by definition: only unordered maps are re-inserted differently
		if s.R != "mapslice" {
			s.Keys, s.E = keys, es
		}
		s.Cap = (variant * 5) % 23
	}
	if s.K == "arr" {
		s.Cap = variant % 4
	}
	for _, e := range s.E {
		permute(e, variant)
	}
}

func (c *c02Case) source() string {
	src := c.P.Source()
	if len(c.Hy) > 0 {
		src = hx.Spell(hx.MergeText(hx.Tokens(c.P.Nodes, nil)), hx.DefaultDelims, c.Hy)
	}
	for _, i := range c.Extra {
		src += "\n" + c02Snippets[i%len(c02Snippets)]
	}
	if c.Delims {
		// plain substitution: whatever comes out is a template or a syntax error, the same for every entry point
		src = strings.NewReplacer("{{", "<<", "}}", ">>", "{%", "<%", "%}", "%>").Replace(src)
	}
	return src
}

func resultString(out string, err error) string {
	if err != nil {
		return "ERROR: " + err.Error()
	}
	return "OK: " + out
}

var c02Deterministic = hx.Define("c02.entry-points", func(c *c02Case, s *hx.Sub) *hx.Violation {
	src := c.source()
	keep := []any{} // earlier realisations stay alive, so that fresh ones get different addresses
	variant := 0
	binds := func() map[string]any {
		variant++
		b := c02Bindings(c, variant)
		keep = append(keep, b)
		return b
	}
	// with Reconf, every other engine has been used under the default configuration before it got its own
	nEngines := 0
	engine := func() *liquid.Engine { nEngines++; return c02Engine(c, nEngines%2 == 0) }
	type res struct{ label, value string }
	var results []res
	add := func(label string, f func() (string, error)) *hx.Violation {
		var out string
		var err error
		if pi := hx.Guard(func() { out, err = f() }); pi != nil {
			return hx.V("panic@"+pi.Site, "%s of %q: %v", label, src, pi)
		}
		results = append(results, res{label, resultString(out, err)})
		return nil
	}
	// results handed out as []byte are kept and looked at again after all other renders:
	// later activity must not change bytes the caller already holds
	type held struct {
		b    []byte
		copy string
	}
	var kept []held
	str := func(b []byte, err liquid.SourceError) (string, error) {
		if err != nil {
			return "", err
		}
		kept = append(kept, held{b, string(b)})
		return string(b), nil
	}
	e1 := engine()
	tpl, perr := e1.ParseString(src)
	if perr != nil {
		// parse errors must be the same too
		for i := 0; i < 3; i++ {
			_, p2 := engine().ParseString(src)
			if p2 == nil || p2.Error() != perr.Error() {
				return hx.V("c02:parse-differs", "%q: parsing fails with %q on one engine and %v on another", src, perr, p2)
			}
		}
		s.Class("parse-error")
		return nil
	}
	steps := []func() *hx.Violation{}
	// the same bindings value handed to several renders ("earlier activity" must not matter) ...
	shared := binds()
	for i := 0; i < 3; i++ {
		steps = append(steps, func() *hx.Violation {
			return add("Template.Render (same template, same bindings value)", func() (string, error) { return str(tpl.Render(shared)) })
		})
	}
	// ... and freshly built equal bindings
	for i := 0; i < 6; i++ {
		steps = append(steps, func() *hx.Violation {
			return add("Template.Render (same template)", func() (string, error) { return str(tpl.Render(binds())) })
		})
	}
	steps = append(steps, func() *hx.Violation {
		return add("Engine.ParseAndRender (bindings value used before)", func() (string, error) { return str(engine().ParseAndRender([]byte(src), shared)) })
	})
	steps = append(steps,
		func() *hx.Violation {
			return add("Template.RenderString", func() (string, error) { o, e := tpl.RenderString(binds()); return o, errOrNil(e) })
		},
		func() *hx.Violation {
			return add("Template.FRender", func() (string, error) {
				var buf bytes.Buffer
				e := tpl.FRender(&buf, binds())
				if e != nil {
					return "", e
				}
				return buf.String(), nil
			})
		},
		func() *hx.Violation {
			return add("Template.FRender into a strings.Builder", func() (string, error) {
				var sb strings.Builder
				if e := tpl.FRender(&sb, binds()); e != nil {
					return "", e
				}
				return sb.String(), nil
			})
		},
		func() *hx.Violation {
			return add("Engine.ParseAndFRender into a plain io.Writer", func() (string, error) {
				w := &plainWriter{}
				if e := engine().ParseAndFRender(w, []byte(src), binds()); e != nil {
					return "", e
				}
				return string(w.b), nil
			})
		},
		func() *hx.Violation {
			// what reaches the writer before a failure is output too: two FRenders must write the same bytes
			var b1, b2 bytes.Buffer
			var e1, e2 liquid.SourceError
			if pi := hx.Guard(func() { e1 = tpl.FRender(&b1, shared); e2 = tpl.FRender(&b2, binds()) }); pi != nil {
				return hx.V("panic@"+pi.Site, "FRender of %q: %v", src, pi)
			}
			if b1.String() != b2.String() || (e1 == nil) != (e2 == nil) {
				return hx.V("c02:differs", "%q\n   one FRender wrote %q (%v)\n   the next FRender wrote %q (%v)", src, trunc(b1.String(), 300), e1, trunc(b2.String(), 300), e2)
			}
			return nil
		})
	for i := 0; i < 3; i++ {
		steps = append(steps, func() *hx.Violation {
			return add("fresh parse", func() (string, error) {
				t2, e := e1.ParseString(src)
				if e != nil {
					return "", e
				}
				return str(t2.Render(binds()))
			})
		}, func() *hx.Violation {
			return add("fresh engine", func() (string, error) {
				t2, e := engine().ParseTemplate([]byte(src))
				if e != nil {
					return "", e
				}
				return str(t2.Render(binds()))
			})
		})
	}
	steps = append(steps,
		func() *hx.Violation {
			return add("Engine.ParseAndRender", func() (string, error) { return str(engine().ParseAndRender([]byte(src), binds())) })
		},
		func() *hx.Violation {
			return add("Engine.ParseAndRenderString", func() (string, error) { o, e := engine().ParseAndRenderString(src, binds()); return o, errOrNil(e) })
		},
		func() *hx.Violation {
			return add("Engine.ParseAndFRender", func() (string, error) {
				var buf bytes.Buffer
				if e := engine().ParseAndFRender(&buf, []byte(src), binds()); e != nil {
					return "", e
				}
				return buf.String(), nil
			})
		})
	for _, st := range steps {
		if v := st(); v != nil {
			return v
		}
	}
	if c.Child {
		out, err := c02InChild(c)
		if err != nil {
			return hx.V("harness-error", "child process: %v", err)
		}
		results = append(results, res{"fresh process", out})
	}
	// something else is rendered in between (other content, other length)
	if pi := hx.Guard(func() {
		other, err := e1.ParseString("{% for i in (1..40) %}#other-content-{{ i }}#{% endfor %}")
		if err == nil {
			for i := 0; i < 3; i++ {
				_, _ = other.Render(nil)
				_, _ = engine().ParseAndRender([]byte("ZZZZZZZZZZZZZZZZZZZZZZZZZZZZZZZZ{{ 1 }}"), nil)
			}
		}
	}); pi != nil {
		return hx.V("panic@"+pi.Site, "rendering an unrelated template: %v", pi)
	}
	// ... and another engine is given its own filters and tags under the names of standard ones, and under a new name
	if pi := hx.Guard(func() {
		o := newEngine(nil)
		for _, f := range c02FilterNames() {
			o.RegisterFilter(f, func(any) string { return "<another engine's filter>" })
		}
		o.RegisterFilter("c02_only_there", func(any) string { return "<another engine's filter>" })
		o.RegisterTag("assign", func(render.Context) (string, error) { return "<another engine's tag>", nil })
		o.RegisterTag("c02_tag_only_there", func(render.Context) (string, error) { return "<another engine's tag>", nil })
		_, _ = o.ParseAndRenderString(src, nil)
	}); pi != nil {
		return hx.V("panic@"+pi.Site, "configuring another engine: %v", pi)
	}
	for _, st := range []func() *hx.Violation{
		func() *hx.Violation {
			return add("fresh engine, after another engine registered filters and tags under the same names", func() (string, error) {
				return str(engine().ParseAndRender([]byte(src), binds()))
			})
		},
		func() *hx.Violation {
			return add("the same template, after another engine registered filters and tags under the same names", func() (string, error) { return str(tpl.Render(binds())) })
		},
	} {
		if v := st(); v != nil {
			return v
		}
	}
	{
		// a name only the other engine knows stays unknown here
		probe := "{{ 1 | c02_only_there }}"
		if c.Delims {
			probe = "<< 1 | c02_only_there >>"
		}
		if out, err := engine().ParseAndRenderString(probe, nil); err == nil {
			return hx.V("c02:differs", "%q renders %q on a fresh engine after another engine registered that filter; before, it is an undefined filter", probe, out)
		}
	}
	for i, h := range kept {
		if string(h.b) != h.copy {
			return hx.V("c02:returned-bytes-changed", "%q: the []byte returned by render %d read %q when it was returned and reads %q after later renders", src, i, trunc(h.copy, 300), trunc(string(h.b), 300))
		}
	}
	for _, r := range results[1:] {
		if r.value != results[0].value {
			return hx.V("c02:differs", "%q\n   %s gives %s\n   %s gives %s", src, results[0].label, trunc(results[0].value, 600), r.label, trunc(r.value, 600))
		}
	}
	_ = keep
	if len(c.Extra) > 0 && len(c.P.Binds["m"].Keys) >= 2 {
		s.NTKey(src + bindingsString(c.P.Binds))
	}
	if strings.HasPrefix(results[0].value, "ERROR") {
		s.Class("same-error")
	}
	if s.WantSample() {
		s.Sample(map[string]any{"template": src, "renders_compared": len(results), "result": trunc(results[0].value, 300)})
	}
	return nil
})

func errOrNil(e liquid.SourceError) error {
	if e == nil {
		return nil
	}
	return e
}

// c02InChild renders the case once in a fresh process (different map hash seed).
func c02InChild(c *c02Case) (string, error) {
	exe, err := os.Executable()
	if err != nil {
		return "", err
	}
	f, err := os.CreateTemp(os.Getenv("VERIF_OUT"), "c02-child-*.json")
	if err != nil {
		return "", err
	}
	defer os.Remove(f.Name())
	f.Write(hx.MustJSON(c))
	f.Close()
	cmd := exec.Command(exe, "-test.run", "^TestC02Child$")
	cmd.Env = append(os.Environ(), "VERIF_C02_CHILD="+f.Name())
	out, err := cmd.CombinedOutput()
	if err != nil {
		return "", fmt.Errorf("%v: %s", err, trunc(string(out), 500))
	}
	for _, line := range strings.Split(string(out), "\n") {
		if strings.HasPrefix(line, "C02CHILD:") {
			b, err := base64.StdEncoding.DecodeString(strings.TrimPrefix(line, "C02CHILD:"))
			return string(b), err
		}
	}
	return "", fmt.Errorf("no result line in child output: %s", trunc(string(out), 500))
}

// TestC02Child is the fresh-process half of c02.entry-points.
func TestC02Child(t *testing.T) {
	path := os.Getenv("VERIF_C02_CHILD")
	if path == "" {
		t.Skip()
	}
	b, err := os.ReadFile(path)
	if err != nil {
		t.Fatal(err)
	}
	var c c02Case
	if err := json.Unmarshal(b, &c); err != nil {
		t.Fatal(err)
	}
	e := c02Engine(&c)
	out, rerr := e.ParseAndRenderString(c.source(), c02Bindings(&c, 99))
	fmt.Printf("C02CHILD:%s\n", base64.StdEncoding.EncodeToString([]byte(resultString(out, errOrNil(rerr)))))
}

// ---- printing a struct that has a pointer-typed field (a recorded finding has its own check, so that
// listing it cannot hide any other source of non-determinism) ----

type c02StructCase struct {
	Form string `json:"form"`           // struct | pointer | in-array | in-map
	Site string `json:"site,omitempty"` // "" (printed by an object) | append | join | conversion-error | include-error | divisor-error | contains
}

var c02StructPrint = hx.Define("c02.struct-print", func(c *c02StructCase, s *hx.Sub) *hx.Violation {
	mk := func() map[string]any {
		p := 7
		st := c02Struct{A: 1, P: &p, M: map[string]int{"a": 1}}
		switch c.Form {
		case "pointer":
			return map[string]any{"v": &st}
		case "in-array":
			return map[string]any{"v": []any{st}}
		case "in-map":
			return map[string]any{"v": map[string]any{"k": &p}}
		}
		return map[string]any{"v": st}
	}
	// the places where a value is turned into text: printed, appended, joined, named in an error message
	src := "{{ v }}"
	switch c.Site {
	case "append":
		src = "{{ 'x' | append: v }}"
	case "join":
		src = "{% assign l = 'a,b' | split: ',' | concat: w %}{{ l | join: ',' }}"
	case "conversion-error":
		src = "{{ v | plus: 1 }}"
	case "include-error":
		src = "{% include v %}"
	case "divisor-error":
		src = "{{ 1 | divided_by: v }}"
	case "contains":
		src = "{% if 'x{1 7 map[a:1]}' contains v %}T{% else %}F{% endif %}"
	}
	a, b := mk(), mk()
	a["w"], b["w"] = []any{a["v"]}, []any{b["v"]}
	o1 := hx.Render(src, a)
	o2 := hx.Render(src, b)
	if o1.Panic != nil {
		return hx.V("panic@"+o1.Panic.Site, "%s (%s): %v", src, c.Form, o1.Panic)
	}
	if !o1.Same(o2) || o1.Out != o2.Out || (o1.Err != nil && o1.Err.Error() != o2.Err.Error()) {
		return hx.V("c02:address-printed:"+c.Form+c.Site, "%s with v a %s holding a pointer gives %v for one copy of the bindings and %v for an equal copy: a memory address is printed", src, c.Form, o1, o2)
	}
	s.NT()
	if s.WantSample() {
		s.Sample(map[string]any{"form": c.Form, "output": o1.Out})
	}
	return nil
})

// ---- the command-line tool ----

type c02CLICase struct {
	Src    string            `json:"src"`
	Env    map[string]string `json:"env"`
	Strict bool              `json:"strict,omitempty"`
	File   bool              `json:"file,omitempty"` // pass the template as a file argument instead of stdin
}

var c02CLIPath string

func c02BuildCLI() (string, error) {
	if c02CLIPath != "" {
		return c02CLIPath, nil
	}
	dir := os.Getenv("VERIF_OUT")
	if dir == "" {
		dir = os.TempDir()
	}
	out := filepath.Join(dir, fmt.Sprintf("liquid-cli-%d", os.Getpid()))
	// built in the tree under test itself (its own go.mod; nothing there is rewritten with -mod=readonly)
	cmd := exec.Command("go", "build", "-o", out, "./cmd/liquid")
	cmd.Dir = hx.RepoDir()
	cmd.Env = append(os.Environ(), "GOFLAGS=-mod=readonly")
	if b, err := cmd.CombinedOutput(); err != nil {
		return "", fmt.Errorf("building the command-line tool: %v: %s", err, b)
	}
	c02CLIPath = out
	return out, nil
}

var c02CLI = hx.Define("c02.command-line", func(c *c02CLICase, s *hx.Sub) *hx.Violation {
	cli, err := c02BuildCLI()
	if err != nil {
		return hx.V("harness-error", "%v", err)
	}
	args := []string{"--env"}
	if c.Strict {
		args = append(args, "--strict")
	}
	cmd := exec.Command(cli, args...)
	cmd.Env = []string{"PATH=/usr/bin"}
	binds := map[string]any{"PATH": "/usr/bin"}
	for k, v := range c.Env {
		cmd.Env = append(cmd.Env, k+"="+v)
		binds[k] = v
	}
	if c.File {
		f, err := os.CreateTemp(os.Getenv("VERIF_OUT"), "c02-cli-*.liquid")
		if err != nil {
			return hx.V("harness-error", "%v", err)
		}
		defer os.Remove(f.Name())
		f.WriteString(c.Src)
		f.Close()
		cmd.Args = append(cmd.Args, f.Name())
	} else {
		cmd.Stdin = strings.NewReader(c.Src)
	}
	var stdout, stderr bytes.Buffer
	cmd.Stdout, cmd.Stderr = &stdout, &stderr
	runErr := cmd.Run()
	e := liquid.NewEngine()
	if c.Strict {
		e.StrictVariables()
	}
	want, werr := e.ParseAndRenderString(c.Src, binds)
	if werr != nil {
		if runErr == nil || !strings.Contains(stderr.String(), werr.Error()) || stdout.Len() != 0 {
			return hx.V("c02:cli-differs", "%q with %v: the library fails with %q; the command-line tool exited with %v, stdout %q, stderr %q", c.Src, c.Env, werr, runErr, stdout.String(), stderr.String())
		}
		s.Class("same-error")
		return nil
	}
	if runErr != nil || stdout.String() != want {
		return hx.V("c02:cli-differs", "%q with %v: the library renders %q; the command-line tool printed %q (%v, stderr %q)", c.Src, c.Env, want, stdout.String(), runErr, stderr.String())
	}
	s.NTKey(c.Src + fmt.Sprint(c.Env, c.Strict, c.File))
	if s.WantSample() {
		s.Sample(map[string]any{"template": c.Src, "env": c.Env, "output": want})
	}
	return nil
})

func TestC02(t *testing.T) {
	if os.Getenv("VERIF_C02_CHILD") != "" {
		t.Skip()
	}
	col := hx.NewCollector("C02")
	defer col.Finish()
	col.Corpus()
	env := col.Env

	det := c02Deterministic.On(col, fmt.Sprintf("rapid: generated programs over bindings that carry a map of 2..12 entries, followed by 1..4 of %d snippets that iterate, convert, filter, print or serialise maps (string-, int- and mixed-keyed, nested in arrays, inside Drops and structs) and pointer-bearing values; each case is rendered ~23 times - Render x3 on one parsed template with one bindings value, x6 with fresh ones, RenderString, FRender, 3 fresh parses, 3 fresh engines, ParseAndRender, ParseAndRenderString, ParseAndFRender, and (for a subset) once in a fresh process - every time against freshly realised bindings whose maps are built in a different insertion order and capacity while all earlier realisations stay alive (so fresh allocations get other addresses). Oracle: identical bytes, or the identical error string. Non-trivial: the template consumes the map (>= 2 entries); distinct by template+bindings", len(c02Snippets)), false)
	prof := hx.FullProfile()
	prof.BigMaps, prof.MapLoops, prof.Tablerow, prof.MaxNodes = true, true, true, 8
	nChild := 0
	col.Rapid(det.Sub, env.PerShard(env.Pick(20000, 200000)), func(t *rapid.T) {
		c := &c02Case{P: hx.GenProgram(t, prof), Strict: rapid.IntRange(0, 5).Draw(t, "strict") == 0}
		c.Extra = rapid.SliceOfN(rapid.IntRange(0, len(c02Snippets)-1), 1, 4).Draw(t, "extra")
		c.Delims = rapid.IntRange(0, 4).Draw(t, "delims") == 2
		c.Reconf = c.Delims && rapid.Bool().Draw(t, "reconf")
		if rapid.IntRange(0, 2).Draw(t, "hyphens") == 0 {
			k := hx.CountTags(hx.Tokens(c.P.Nodes, nil))
			c.Hy = rapid.SliceOfN(rapid.Bool(), 2*k, 2*k).Draw(t, "hy")
		}
		if rapid.IntRange(0, 60).Draw(t, "child") == 0 && nChild < env.Pick(60, 600) {
			c.Child = true
			nChild++
		}
		if v := det.Run(c); v != nil {
			t.Fatalf("%s", v.Message)
		}
	})

	sp := c02StructPrint.On(col, "28 cases: a struct with a pointer-typed field, a pointer to it, an array holding it, and a map holding a pointer, x the places where a value is turned into text (printed by an object, appended, joined, named in a conversion error, named in include's and in divided_by's error, searched for with contains), each rendered against two equal, separately allocated bindings; oracle: same output and same error text. Distinct by construction", true)
	for i, f := range []string{"struct", "pointer", "in-array", "in-map"} {
		for j, site := range []string{"", "append", "join", "conversion-error", "include-error", "divisor-error", "contains"} {
			if env.Mine(i*8 + j) {
				sp.Run(&c02StructCase{Form: f, Site: site})
			}
		}
	}

	cli := c02CLI.On(col, "rapid: templates over environment variables only (all values are strings), run through the built cmd/liquid binary with --env (template on stdin and as a file argument, with and without --strict) and through Engine.ParseAndRenderString with the same variables; oracle: same stdout, or the library's error message on stderr with a non-zero exit and empty stdout. Distinct by template+environment+mode", false)
	pieces := []string{"{{ VS_A }}", "{{ VS_B | upcase }}", "{% if VS_A == VS_B %}eq{% else %}ne{% endif %}", "{{ VS_A | append: VS_B | size }}", "{% assign x = VS_B | split: ',' %}{% for p in x %}[{{ p }}]{% endfor %}", "text ", "\n", "{{ VS_MISSING }}", "{{ VS_A | truncate: 4 }}", "{% capture c %}{{ VS_A }}{{ VS_A }}{% endcapture %}{{ c | size }}", "{{ VS_A | nosuchfilter }}", "{% endif %}", "{{ 'x' | divided_by: 0 }}", "{{ VS_B | escape }}", "100% ", "%d %s %v%%", "{{ VS_A | url_encode }}"}
	vals := []string{"", "a", "A,b,,c", "héllo wörld", " padded ", "<b>&</b>", "12", "line1\\nline2", "50% off", "%s%d%!", "a b&c"}
	col.Rapid(cli.Sub, env.PerShard(env.Pick(600, 6000)), func(t *rapid.T) {
		c := &c02CLICase{Src: strings.Join(rapid.SliceOfN(rapid.SampledFrom(pieces), 1, 6).Draw(t, "src"), ""),
			Env:    map[string]string{"VS_A": rapid.SampledFrom(vals).Draw(t, "a"), "VS_B": rapid.SampledFrom(vals).Draw(t, "b")},
			Strict: rapid.IntRange(0, 3).Draw(t, "strict") == 0, File: rapid.Bool().Draw(t, "file")}
		if v := cli.Run(c); v != nil {
			t.Fatalf("%s", v.Message)
		}
	})
	if c02CLIPath != "" {
		os.Remove(c02CLIPath)
	}
}
