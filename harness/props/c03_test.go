package props

import (
	"bytes"
	"fmt"
	"strings"
	"testing"

	"github.com/osteele/liquid"
	"pgregory.net/rapid"

	"verifharness/hx"
)

// ---- C03: rendering never modifies bindings or the template; renders are independent ----

type c03Step struct {
	Op string `json:"op"` // render | reparse
	I  int    `json:"i"`  // template
	J  int    `json:"j"`  // environment
	// entry point: 0 RenderString, 1 Render, 2 FRender, 3 Engine.ParseAndRenderString, 4 Engine.ParseAndRender, 5 Engine.ParseAndFRender
	Via int `json:"via,omitempty"`
}

// two distinct struct types with the same printed name ("props.rec") whose
// liquid tags name their fields crosswise
func c03RecA() any {
	type rec struct {
		A string `liquid:"name"`
		B string `liquid:"other"`
	}
	return rec{"a-name", "a-other"}
}

func c03RecB() any {
	type rec struct {
		A string `liquid:"other"`
		B string `liquid:"name"`
	}
	return rec{"b-other", "b-name"}
}

// a struct bound by pointer whose embedded pointer is nil: reading a promoted field must not fill it in
type C03Meta struct{ Author string }

type c03Page struct {
	*C03Meta
	Title string
}

// c03Engine is the engine of a history: two partials are registered before it is used.
func c03Engine() *liquid.Engine {
	e := newEngine(nil)
	for name, src := range map[string]string{"c03-p1.html": "[A {{ n }}{% assign inc_a = 1 %}]", "c03-p2.html": "[B {{ s }}{% for q in a %}{% cycle 'x', 'y' %}{% endfor %}]",
		// a partial in a sub-directory, and one that includes further
		"c03-p5.html":    "[E {{ 10 | divided_by: n }}]", // fails in the environments where n is 0
		"c03sub/p3.html": "[C {{ n }}]", "c03sub/p4.html": "[D {% include \"c03-p1.html\" %}]"} {
		if _, err := e.ParseTemplateAndCache([]byte(src), name, 1); err != nil {
			panic(err)
		}
	}
	return e
}

// c03Extras adds the Go-only values every environment carries; j is the environment's index.
func c03Extras(env map[string]any, j int) map[string]any {
	// which partial an include names is a matter of the bindings
	env["partial"] = []string{"c03-p1.html", "c03-p2.html", "c03sub/p3.html"}[j%3]
	env["pnames"] = []any{"c03-p1.html", "c03sub/p3.html", "c03-p2.html", "c03sub/p4.html", "c03-p1.html"}[j%2:]
	// keys that are equal as Liquid values but of different Go types
	env["mx"] = map[any]any{int64(1): "one", float64(1): "uno", int8(1): "eins", "1": "str", 2: "two", uint8(2): "zwei"}
	env["p1"], env["p2"] = c03RecA(), c03RecB()
	env["pe"] = &c03Page{Title: "page"}
	env["dm"] = map[string]any{"d": hx.Drop{V: "dropped"}, "dd": hx.Drop{V: hx.Drop{V: []any{1, 2}}}, "plain": 1}
	return env
}

type c03Case struct {
	Templates [][]*hx.N     `json:"templates"`
	Envs      []hx.Bindings `json:"envs"`
	Steps     []c03Step     `json:"steps"`
	Hy        [][]bool      `json:"hy,omitempty"`       // whitespace-control hyphens per template
	Raw       []string      `json:"raw,omitempty"`      // further templates given as source text
	RawWant   []string      `json:"raw_want,omitempty"` // what Raw[i] renders to with any environment ("" = not fixed)
}

const c03Probe = "{{ v1 }}|{{ v2 }}|{{ v3 }}|{{ my-var }}|{{ c1 }}|{{ c2 }}|{{ ok? }}|{{ i }}|{{ j }}|{{ it }}|{{ forloop }}|{{ forloop.index }}|{{ n }}|{{ s }}|{{ a | join: ',' }}|{{ x | join: ',' }}"

var c03History = hx.Define("c03.history", func(c *c03Case, s *hx.Sub) *hx.Violation {
	eng := c03Engine()
	srcs := make([]string, len(c.Templates), len(c.Templates)+len(c.Raw))
	for i, nodes := range c.Templates {
		var hy []bool
		if i < len(c.Hy) {
			hy = c.Hy[i]
		}
		srcs[i] = hx.Spell(hx.MergeText(hx.Tokens(nodes, nil)), hx.DefaultDelims, hy)
	}
	srcs = append(srcs, c.Raw...)
	tpls := make([]*liquid.Template, len(srcs))
	for i := range srcs {
		t, err := eng.ParseString(srcs[i])
		if err != nil {
			s.Exclude()
			return nil
		}
		tpls[i] = t
	}
	probe, err := eng.ParseString(c03Probe)
	if err != nil {
		return hx.V("harness-error", "probe: %v", err)
	}
	// every environment is realised once and shared by reference by all renders
	envs := make([]map[string]any, len(c.Envs))
	prints := make([]string, len(c.Envs))
	for j, b := range c.Envs {
		envs[j] = c03Extras(b.Realise(), j)
		prints[j] = hx.Fingerprint(envs[j])
	}
	renderVia := func(via int, e *liquid.Engine, t *liquid.Template, src string, env map[string]any) (res string, pi *hx.PanicInfo) {
		pi = hx.Guard(func() {
			var out string
			var err liquid.SourceError
			switch via {
			case 1:
				var b []byte
				b, err = t.Render(env)
				out = string(b)
			case 2:
				var w bytes.Buffer
				if err = t.FRender(&w, env); err == nil {
					out = w.String()
				}
			case 3:
				out, err = e.ParseAndRenderString(src, env)
			case 4:
				var b []byte
				b, err = e.ParseAndRender([]byte(src), env)
				out = string(b)
			case 5:
				var w bytes.Buffer
				if err = e.ParseAndFRender(&w, []byte(src), env); err == nil {
					out = w.String()
				}
			default:
				out, err = t.RenderString(env)
			}
			res = resultString(out, errOrNil(err))
		})
		return
	}
	render := func(t *liquid.Template, env map[string]any) (string, *hx.PanicInfo) {
		return renderVia(0, nil, t, "", env)
	}
	first := map[[2]int]string{}
	pristine := map[[2]int]string{}
	failedBefore, repeatAfterFailure := false, false
	history := func(upto int) string {
		var sb strings.Builder
		for k, st := range c.Steps[:upto+1] {
			fmt.Fprintf(&sb, "\n     %d. %s template %d env %d", k+1, st.Op, st.I, st.J)
		}
		for i, src := range srcs {
			fmt.Fprintf(&sb, "\n     template %d: %q", i, src)
		}
		return sb.String()
	}
	for k, st := range c.Steps {
		i, j := st.I%len(tpls), st.J%len(envs)
		switch st.Op {
		case "reparse":
			t, err := eng.ParseString(srcs[i])
			if err != nil {
				return hx.V("c03:reparse-fails", "template %q parsed before but not now: %v", srcs[i], err)
			}
			tpls[i] = t
			continue
		}
		got, pi := renderVia(st.Via, eng, tpls[i], srcs[i], envs[j])
		if pi != nil {
			return hx.V("panic@"+pi.Site, "%q: %v", srcs[i], pi)
		}
		key := [2]int{i, j}
		if _, seen := pristine[key]; !seen {
			// what a fresh engine with freshly built, equal bindings gives
			ft, err := c03Engine().ParseString(srcs[i])
			if err != nil {
				return hx.V("harness-error", "fresh parse: %v", err)
			}
			pristine[key], _ = render(ft, c03Extras(c.Envs[j].Realise(), j))
		}
		if r := i - len(c.Templates); r >= 0 && r < len(c.RawWant) && c.RawWant[r] != "" && got != resultString(c.RawWant[r], nil) {
			return hx.V("c03:depends-on-history", "step %d: template %d %q gives %s; whatever was rendered before, it is to give %q%s", k+1, i, srcs[i], trunc(got, 300), c.RawWant[r], history(k))
		}
		if f, seen := first[key]; seen {
			if got != f {
				return hx.V("c03:result-changed", "step %d: rendering template %d with environment %d now gives %s; the first time it gave %s%s", k+1, i, j, trunc(got, 300), trunc(f, 300), history(k))
			}
			if failedBefore {
				repeatAfterFailure = true
			}
		} else {
			first[key] = got
		}
		if got != pristine[key] {
			return hx.V("c03:differs-from-pristine", "step %d: rendering template %d with environment %d gives %s; on a fresh engine with fresh equal bindings it gives %s%s", k+1, i, j, trunc(got, 300), trunc(pristine[key], 300), history(k))
		}
		if strings.HasPrefix(got, "ERROR") {
			failedBefore = true
		}
		// nothing reachable from any environment was modified
		for jj := range envs {
			if fp := hx.Fingerprint(envs[jj]); fp != prints[jj] {
				return hx.V("c03:bindings-modified", "step %d (template %d %q, environment %d) modified environment %d:\n   before %s\n   after  %s", k+1, i, srcs[i], j, jj, trunc(prints[jj], 700), trunc(fp, 700))
			}
		}
		// no variable made by this render survives into the next one
		pg, _ := render(probe, envs[j])
		fresh, _ := render(probe, c03Extras(c.Envs[j].Realise(), j))
		if pg != fresh {
			return hx.V("c03:state-survives", "step %d: after rendering template %d with environment %d a probe of the variables gives %s; with fresh bindings %s%s", k+1, i, j, trunc(pg, 300), trunc(fresh, 300), history(k))
		}
	}
	if repeatAfterFailure {
		s.Class("repeat-after-failure")
		s.NTKey(fmt.Sprint(srcs, c.Steps) + fmt.Sprint(len(c.Envs)))
	}
	if s.WantSample() {
		s.Sample(map[string]any{"templates": srcs, "steps": c.Steps, "environments": len(c.Envs)})
	}
	return nil
})

func TestC03(t *testing.T) {
	col := hx.NewCollector("C03")
	defer col.Finish()
	col.Corpus()
	env := col.Env

	h := c03History.On(col, "rapid, stateful: a pool of 3..6 generated templates (assign, capture, loops over binding containers, sort reverse uniq concat compact map join, grouped and ungrouped cycle, break/continue, conditions; some fail part-way depending on the bindings: division by a bound value that is zero in some environments, an error-returning filter) and 2..4 binding environments that are realised ONCE (nested []any with spare capacity, typed slices, maps, Drops, pointers) and shared by reference; a history of 2..40 steps: render(template, environment) on the shared engine and template objects, and reparse(template). Invariants after every step: the deep fingerprint of every environment (incl. spare slice capacity) is what it was at creation; render(i, j) equals its first result and the result on a fresh engine with freshly built equal bindings; a probe of every assignable / loop variable renders as with fresh bindings. Non-trivial: the history contains a failing render followed by a repeat of an earlier pair; distinct by (templates, steps)", false)
	prof := hx.FullProfile()
	prof.Failing, prof.Tablerow, prof.MaxNodes, prof.BareJumps, prof.WSText = true, true, 12, true, true
	col.Rapid(h.Sub, env.PerShard(env.Pick(25000, 250000)), func(t *rapid.T) {
		c := &c03Case{}
		for i, n := 0, rapid.IntRange(3, 6).Draw(t, "ntemplates"); i < n; i++ {
			p := hx.GenProgram(t, prof)
			c.Templates = append(c.Templates, p.Nodes)
		}
		// hand-made shapes that generated programs hit rarely
		extra := [][]*hx.N{
			{&hx.N{T: "for", S: "q", E: hx.Var("a"), Body: []*hx.N{{T: "cycle", Vals: []string{"a", "b", "c"}}, hx.Obj(hx.Flt(hx.LInt(6), "divided_by", hx.Var("q"))), hx.Text(" ")}}},
			{hx.Obj(hx.Flt(hx.Flt(hx.Var("x"), "compact"), "join", hx.LStr(","))), hx.Assign("v1", hx.Flt(hx.Var("a"), "sort")), hx.Obj(hx.Flt(hx.Flt(hx.Var("a"), "reverse"), "join"))},
		}
		c.Templates = append(c.Templates, extra[rapid.IntRange(0, len(extra)-1).Draw(t, "extra")])
		// whitespace-control hyphens, also at the very end of a template
		for _, nodes := range c.Templates {
			var hy []bool
			if rapid.Bool().Draw(t, "hyphens") {
				k := hx.CountTags(hx.Tokens(nodes, nil))
				hy = rapid.SliceOfN(rapid.Bool(), 2*k, 2*k).Draw(t, "hy")
			}
			c.Hy = append(c.Hy, hy)
		}
		// templates over string data whose interpretation could be cached between renders (dates, numbers)
		dateFmt := []string{"%Y-%m-%d %H:%M:%S %Z", "%Z", "%a, %b %d, %y", "%s"}
		for i, n := 0, rapid.IntRange(0, 2).Draw(t, "ndate"); i < n; i++ {
			c.Raw = append(c.Raw, "  {{ d"+fmt.Sprint(rapid.IntRange(1, 4).Draw(t, "dv"))+" | date: \""+rapid.SampledFrom(dateFmt).Draw(t, "dfmt")+"\" }} {{- n -}}")
		}
		c.RawWant = make([]string, len(c.Raw))
		fixed := [][2]string{{"{{ p1.name }}", "a-name"}, {"{{ p2.name }}", "b-name"}, {"{{ p2.other }}/{{ p1.other }}", "b-other/a-other"}, {"{{ p1.name }}{{ p2.name }}", "a-nameb-name"},
			{"{{ dm.d }}{% assign z = dm.dd | first %}{{ z }}", "dropped1"}, {"{% for kv in dm %}{{ kv[0] }}={{ kv[1] }};{% endfor %}", "d=dropped;dd=12;plain=1;"}}
		for i, n := 0, rapid.IntRange(0, 3).Draw(t, "nfixed"); i < n; i++ {
			f := rapid.SampledFrom(fixed).Draw(t, "fixed")
			c.Raw, c.RawWant = append(c.Raw, f[0]), append(c.RawWant, f[1])
		}
		// templates whose outcome depends on the environment in ways a template object might remember:
		// the name of an included partial, the order of a map's Liquid-equal keys
		perEnv := []string{"<{% include partial %}>", "{% for pn in pnames %}{% include pn %};{% endfor %}{{ inc_a }}", "{% for kv in mx %}{{ kv[1] }} {% endfor %}|{{ mx | join: ',' }}",
			"{% include partial %}{% for pn in pnames reversed %}{% include pn %}{% endfor %}",
			"<{% include \"c03-p5.html\" %}>", "{{ pe.Title }}/{{ pe.Author }}/{% if pe.C03Meta %}M{% else %}no meta{% endif %}",
			"{% for i in (1..2) %}{% include \"c03sub/p3.html\" %}{% endfor %}|{% include \"c03sub/p4.html\" %}",
			// filters that might keep tables between calls: the same filter with other arguments in between
			"{{ f | round: 2 }}|{{ 183.357 | round: 2 }}|{{ 183.357 | round: 1 }}", "{{ n | times: 100 | plus: 50 | round: -2 }}|{{ 1250 | round: -2 }}", "{{ 183.357 | round: -1 }}|{{ 0.5 | round: -1 }}|{{ f | round: -3 }}",
			"{{ s | truncate: 3 }}|{{ 'abcdef' | truncate: 4, '..' }}", "{{ 'a,b' | split: ',' | join: '-' }}|{{ s | split: '' | size }}"}
		for i, n := 0, rapid.IntRange(0, 3).Draw(t, "nperenv"); i < n; i++ {
			c.Raw, c.RawWant = append(c.Raw, rapid.SampledFrom(perEnv).Draw(t, "perenv")), append(c.RawWant, "")
		}
		dates := []string{"2020-05-03 04:05:06 +0000", "2020-05-03 04:05:06 EST", "2015-06-07", "March 14, 2016", "2017-07-09T10:40:00Z", "Jan 2 2006", "2020-05-03 04:05:06 +0100", "not a date"}
		for j, n := 0, rapid.IntRange(2, 4).Draw(t, "nenvs"); j < n; j++ {
			b := hx.GenBindings(t, prof)
			for d := 1; d <= 4; d++ {
				b[fmt.Sprintf("d%d", d)] = hx.SStr(rapid.SampledFrom(dates).Draw(t, "date"))
			}
			for _, name := range sortedNames(b) {
				sp := b[name]
				switch sp.K {
				case "arr":
					sp.Cap = rapid.IntRange(0, 3).Draw(t, "cap")
					if rapid.IntRange(0, 3).Draw(t, "typed") == 0 {
						reps := sp.ArrReps()
						sp.R = reps[rapid.IntRange(0, len(reps)-1).Draw(t, "rep")]
						if sp.R == "range" {
							sp.R = ""
						}
					}
				case "map":
					if rapid.IntRange(0, 3).Draw(t, "drop") == 0 {
						sp.Drop = 1
					}
				}
				if sp.K != "nil" && rapid.IntRange(0, 9).Draw(t, "ptr") == 0 {
					sp.Ptr = true
				}
				// Drops below the top level: as map values and array elements
				if (sp.K == "map" || sp.K == "arr") && sp.R == "" {
					for _, ch := range sp.E {
						if ch.K != "nil" && rapid.IntRange(0, 7).Draw(t, "inner-drop") == 0 {
							ch.Drop = 1
						}
					}
				}
			}
			c.Envs = append(c.Envs, b)
		}
		steps := rapid.IntRange(2, 40).Draw(t, "nsteps")
		for k := 0; k < steps; k++ {
			st := c03Step{Op: "render", I: rapid.IntRange(0, len(c.Templates)+len(c.Raw)-1).Draw(t, "i"), J: rapid.IntRange(0, len(c.Envs)-1).Draw(t, "j")}
			if rapid.Bool().Draw(t, "other-entry") {
				st.Via = rapid.IntRange(1, 5).Draw(t, "via")
			}
			if rapid.IntRange(0, 9).Draw(t, "reparse") == 0 {
				st.Op = "reparse"
			}
			c.Steps = append(c.Steps, st)
		}
		if v := h.Run(c); v != nil {
			t.Fatalf("%s", v.Message)
		}
	})
}
