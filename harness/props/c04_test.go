package props

import (
	"bytes"
	"encoding/json"
	"fmt"
	"os"
	"path/filepath"
	"reflect"
	"regexp"
	"runtime"
	"sort"
	"strings"
	"sync"
	"sync/atomic"
	"testing"

	"github.com/osteele/liquid"
	"github.com/osteele/liquid/render"
	"pgregory.net/rapid"

	"verifharness/hx"
)

// ---- C04: concurrent parse/render on a shared engine is race-free and equals sequential ----

type c04Op struct {
	Parse bool `json:"parse,omitempty"`
	K     int  `json:"k"` // template index
	// entry point of a render: 0 RenderString, 1 Render, 2 FRender, 3 Engine.ParseAndRenderString, 4 Engine.ParseAndRender, 5 Engine.ParseAndFRender
	Via int `json:"via,omitempty"`
}

// c04Render renders through one of the public entry points.
func c04Render(via int, e *liquid.Engine, t *liquid.Template, src string, env map[string]any) string {
	var out string
	var err liquid.SourceError
	switch via {
	case 1:
		var b []byte
		b, err = t.Render(env)
		out = string(b)
	case 2:
		var w bytes.Buffer
		if err = t.FRender(&w, env); err == nil {
			out = w.String()
		}
	case 3:
		out, err = e.ParseAndRenderString(src, env)
	case 4:
		var b []byte
		b, err = e.ParseAndRender([]byte(src), env)
		out = string(b)
	case 5:
		var w bytes.Buffer
		if err = e.ParseAndFRender(&w, []byte(src), env); err == nil {
			out = w.String()
		}
	default:
		out, err = t.RenderString(env)
	}
	return resultString(out, errOrNil(err))
}

type c04Case struct {
	Templates []string    `json:"templates"`
	Binds     hx.Bindings `json:"binds"`
	Ops       [][]c04Op   `json:"ops"` // one list per goroutine
	Procs     int         `json:"procs,omitempty"`
	Delims    []string    `json:"delims,omitempty"` // Engine.Delims configuration (empty strings = defaults), nil = not called
	Cold      bool        `json:"cold,omitempty"`   // the shared engine does nothing before the goroutines start: each goroutine parses what it renders

	dyn      any    // run-time only: a value of a struct type made for this run (c04Dyn)
	dynField string // its first field's name, substituted for DYNFIELD in the templates
}

const c04Included = "[inc {{ n }}{% for q in a %}{% cycle 'x', 'y' %}{% endfor %}]"

// c04Dyn returns a value of a struct type that the process has not seen before (whatever the library
// remembers per type is cold for it), and the name of its first field.
var c04DynSeq atomic.Int64

func c04Dyn() (any, string) {
	n := c04DynSeq.Add(1)
	field := fmt.Sprintf("Fa%d", n)
	t := reflect.StructOf([]reflect.StructField{
		{Name: field, Type: reflect.TypeOf(0)},
		{Name: fmt.Sprintf("Fb%d", n), Type: reflect.TypeOf(""), Tag: `liquid:"tagged"`},
		{Name: fmt.Sprintf("Fc%d", n), Type: reflect.TypeOf([]int(nil))},
	})
	v := reflect.New(t).Elem()
	v.Field(0).SetInt(n % 7)
	v.Field(1).SetString("tagged-field")
	v.Field(2).Set(reflect.ValueOf([]int{1, 2}))
	return v.Interface(), field
}

// c04Spell writes a template in the case's delimiters (plain substitution: whatever
// comes out is a template or a syntax error, the same for every goroutine).
func c04Spell(c *c04Case, src string) string {
	src = strings.ReplaceAll(src, "DYNFIELD", c.dynField)
	if len(c.Delims) != 4 {
		return src
	}
	for i, d := range []string{"{{", "}}", "{%", "%}"} {
		if c.Delims[i] != "" && c.Delims[i] != d {
			src = strings.ReplaceAll(src, d, c.Delims[i])
		}
	}
	return src
}

// c04Run executes the case; it returns the first result that differs from the sequential one.
func c04Engine(c *c04Case) (*liquid.Engine, error) {
	eng := newEngine(nil)
	// a custom tag and a custom block that use the documented render.Context services
	eng.RegisterTag("echo", func(ctx render.Context) (string, error) {
		return ctx.ExpandTagArg()
	})
	eng.RegisterBlock("wrap", func(ctx render.Context) (string, error) {
		inner, err := ctx.InnerString()
		return "<" + ctx.TagArgs() + ":" + inner + ">", err
	})
	if len(c.Delims) == 4 {
		eng.Delims(c.Delims[0], c.Delims[1], c.Delims[2], c.Delims[3])
	}
	includes := false
	for _, t := range c.Templates {
		includes = includes || strings.Contains(t, "include '")
	}
	// (a cold engine has done nothing at all before the goroutines start - unless a template includes)
	if !c.Cold || includes {
		if _, err := eng.ParseTemplateAndCache([]byte(c04Spell(c, c04Included)), "inc.html", 1); err != nil {
			return nil, err
		}
		if _, err := eng.ParseTemplateAndCache([]byte(c04Spell(c, "in the included file: {{ 1 | divided_by: zero }}")), "incerr.html", 1); err != nil {
			return nil, err
		}
	}
	return eng, nil
}

func c04Run(c *c04Case) *hx.Violation {
	if c.Cold {
		return c04RunCold(c)
	}
	c.dyn, c.dynField = c04Dyn()
	eng, err := c04Engine(c)
	if err != nil {
		return hx.V("harness-error", "%v", err)
	}
	// configuration ends here; from now on the engine is only used
	// two sets of parsed templates: one gives the reference results beforehand, the
	// other is rendered for the first time by the goroutines (so that whatever a
	// template does lazily on its first render happens concurrently)
	srcs := make([]string, len(c.Templates))
	tpls := make([]*liquid.Template, len(c.Templates))
	refTpls := make([]*liquid.Template, len(c.Templates))
	for i, src := range c.Templates {
		srcs[i] = c04Spell(c, src)
		if t, err := eng.ParseString(srcs[i]); err == nil {
			refTpls[i] = t
		}
		if t, err := eng.ParseString(srcs[i]); err == nil {
			tpls[i] = t
		}
	}
	env := c.Binds.Realise() // one set of binding values shared by every goroutine
	env["dyn"], env["zero"] = c.dyn, 0
	do := func(op c04Op, tpls []*liquid.Template) (res string) {
		if pi := hx.Guard(func() {
			k := op.K % len(c.Templates)
			if op.Parse {
				_, err := eng.ParseString(srcs[k])
				res = resultString("parsed", errOrNil(err))
				return
			}
			if tpls[k] == nil {
				res = "unparsable"
				return
			}
			res = c04Render(op.Via, eng, tpls[k], srcs[k], env)
		}); pi != nil {
			res = "PANIC " + pi.String()
		}
		return
	}
	// every op alone, beforehand
	want := map[c04Op]string{}
	for _, ops := range c.Ops {
		for _, op := range ops {
			op.K %= len(c.Templates)
			if _, ok := want[op]; !ok {
				want[op] = do(op, refTpls)
				if strings.HasPrefix(want[op], "PANIC") {
					return hx.V("panic", "%s", want[op])
				}
			}
		}
	}
	var wg sync.WaitGroup
	start := make(chan struct{})
	var mu sync.Mutex
	var bad *hx.Violation
	for g, ops := range c.Ops {
		wg.Add(1)
		go func(g int, ops []c04Op) {
			defer wg.Done()
			<-start
			for _, op := range ops {
				op.K %= len(c.Templates)
				got := do(op, tpls)
				if got != want[op] {
					mu.Lock()
					if bad == nil {
						bad = hx.V("c04:differs-from-sequential", "goroutine %d: %+v on %q returned %s; run alone it returns %s", g, op, srcs[op.K], trunc(got, 300), trunc(want[op], 300))
					}
					mu.Unlock()
				}
			}
		}(g, ops)
	}
	close(start)
	wg.Wait()
	return bad
}

// c04RunCold: the configured engine is used for the first time by the goroutines themselves.
// The reference results come from a second engine configured identically and used sequentially.
func c04RunCold(c *c04Case) *hx.Violation {
	c.dyn, c.dynField = c04Dyn()
	eng, err := c04Engine(c)
	if err != nil {
		return hx.V("harness-error", "%v", err)
	}
	env := c.Binds.Realise()
	env["dyn"], env["zero"] = c.dyn, 0
	one := func(e *liquid.Engine, k, via int) (res string) {
		if pi := hx.Guard(func() {
			src := c04Spell(c, c.Templates[k])
			t, err := e.ParseString(src)
			if err != nil {
				res = resultString("", err)
				return
			}
			res = c04Render(via, e, t, src, env)
		}); pi != nil {
			res = "PANIC " + pi.String()
		}
		return
	}
	// the goroutines go first: nothing in the process has seen this configuration before
	type res struct {
		g, k int
		got  string
	}
	var wg sync.WaitGroup
	start := make(chan struct{})
	var mu sync.Mutex
	var all []res
	for g, ops := range c.Ops {
		wg.Add(1)
		go func(g int, ops []c04Op) {
			defer wg.Done()
			<-start
			for _, op := range ops {
				k := op.K % len(c.Templates)
				got := one(eng, k, op.Via)
				mu.Lock()
				all = append(all, res{g, k, got})
				mu.Unlock()
			}
		}(g, ops)
	}
	close(start)
	wg.Wait()
	want := map[int]string{}
	for _, r := range all {
		if _, ok := want[r.k]; !ok {
			// "what it returns when run alone": on an engine of its own that has done nothing else
			ref, _ := c04Engine(c)
			want[r.k] = one(ref, r.k, 0)
		}
		if r.got != want[r.k] {
			return hx.V("c04:differs-from-sequential", "goroutine %d: parse+render of %q on a freshly configured engine returned %s; on an equally configured engine used alone it returns %s", r.g, c04Spell(c, c.Templates[r.k]), trunc(r.got, 300), trunc(want[r.k], 300))
		}
	}
	return nil
}

var c04Concurrent = hx.Define("c04.concurrent", func(c *c04Case, s *hx.Sub) *hx.Violation {
	if c.Procs > 0 {
		defer runtime.GOMAXPROCS(runtime.GOMAXPROCS(c.Procs))
	}
	return c04Run(c)
})

var raceStackRe = regexp.MustCompile(`(?m)^\s+(github\.com/osteele/liquid[^\s(]*(?:\([^)]*\))?[^\s(]*)\(`)

// raceSignature extracts the two liquid functions of the first new report in the race log.
func raceSignature(text string) (string, string) {
	i := strings.Index(text, "WARNING: DATA RACE")
	if i < 0 {
		return "race:unattributed", ""
	}
	rep := text[i:]
	if j := strings.Index(rep, "=================="); j > 0 {
		rep = rep[:j]
	}
	var fns []string
	for _, block := range strings.Split(rep, "\n\n") {
		if !(strings.Contains(block, " at 0x") && (strings.Contains(block, "rite at") || strings.Contains(block, "ead at"))) {
			continue
		}
		if m := raceStackRe.FindStringSubmatch(block); m != nil {
			fns = append(fns, strings.TrimPrefix(strings.TrimPrefix(m[1], "github.com/osteele/liquid"), "/"))
		}
	}
	sort.Strings(fns)
	if len(fns) == 0 {
		return "race:unattributed", rep
	}
	return "race:" + strings.Join(fns, "|"), rep
}

func c04ReadRaceLog(seen map[string]int) string {
	pat := os.Getenv("VERIF_RACE_LOG")
	if pat == "" {
		return ""
	}
	files, _ := filepath.Glob(pat + "*")
	var sb strings.Builder
	for _, f := range files {
		b, err := os.ReadFile(f)
		if err != nil {
			continue
		}
		if len(b) > seen[f] {
			sb.Write(b[seen[f]:])
			seen[f] = len(b)
		}
	}
	return sb.String()
}

func TestC04(t *testing.T) {
	col := hx.NewCollector("C04")
	defer col.Finish()
	env := col.Env
	if !hx.RaceEnabled {
		t.Log("not built with -race: only the equals-sequential half of the property is checked")
	}
	procs := []int{2, 4, 16}[env.Shard%3]
	runtime.GOMAXPROCS(procs)

	chk := c04Concurrent.On(col, "rapid-generated cases run under the race detector (binary built with -race; GOMAXPROCS 2, 4 or 16 depending on the shard): 1..5 templates (generated programs over every tag incl. cycle, tablerow, capture, include of a cached template, plus snippets that apply every standard filter read from the repository), one engine configured before the goroutines start, one set of parsed templates, one shared set of binding values (arrays with spare capacity, maps, Drops, pointers), 2..32 goroutines released by a barrier, each with its own list of parse/render operations. Oracle: (1) the race detector reports nothing during the case (each case is a subtest, so testing attributes a report to it; the report's two liquid functions form the failure signature); (2) every concurrent result equals the result of the same operation run alone beforehand. Cases grow in size with their index, so the first case that exposes a race is small. Non-trivial: >= 2 goroutines render the same parsed template, which contains a tag or filter; distinct by (templates, operations)", false)

	si, err := hx.ReadSrcInfo()
	if err != nil {
		t.Fatal(err)
	}
	// one snippet per standard filter, from the arity table
	var snippets []string
	recv := map[string]string{"S": "s", "N": "n", "A": "x", "X": "nl", "T": "'2024-02-29'"}
	arg := map[string]string{"S": "u", "N": "k", "A": "w", "X": "'dflt'"}
	known := map[string]bool{}
	for _, f := range c08Filters {
		known[f.name] = true
		src := "{{ " + recv[f.in] + " | " + f.name
		for i, a := range f.args {
			if i == 0 {
				src += ": "
			} else {
				src += ", "
			}
			src += arg[strings.TrimSuffix(a, "?")]
		}
		snippets = append(snippets, src+" }}")
	}
	for _, f := range si.Filters {
		if !known[f] {
			snippets = append(snippets, "{{ s | "+f+" }}")
		}
	}
	// a struct type no render has seen, read field by field; an included file that fails, included from different lines
	snippets = append(snippets, "{{ dyn.DYNFIELD }}{{ dyn.tagged }}{% for q in (1..2) %}{{ dyn.DYNFIELD }}{% endfor %}", "{{ dyn.tagged }}{{ dyn.DYNFIELD | plus: 1 }}",
		"{% include 'incerr.html' %}", "\n{% include 'incerr.html' %}", "\n\n\n{% include 'incerr.html' %}")
	snippets = append(snippets, "{% include 'inc.html' %}", "{% for q in x %}{% cycle 'a', 'b' %}{% cycle 'g': '1', '2' %}{% endfor %}", "{% tablerow q in a cols: 2 %}{{ q }}{% endtablerow %}", "{% capture cc %}{{ s }}{% endcapture %}{{ cc }}", "{% case n %}{% when 1 %}one{% else %}other{% endcase %}", "{% raw %}{{ raw }}{% endraw %}{% comment %}c{% endcomment %}", "{% unless b %}u{% endunless %}", "{% assign vv = a | sort %}{{ vv | join }}", "{{ r | map: 'v' | join }}", "{{ dm.a }}{{ dm | size }}",
		"{% for q in a %}{% assign ff = forloop %}{% endfor %}{{ ff.index }}/{{ ff.length }}", "{% for q in (1..3) %}{% if forloop.first %}{% assign ff = forloop %}{% endif %}{{ ff.index }}{% endfor %}",
		"{% echo n={{ n }} s={{ s | upcase }} %}", "{% for q in a %}{% echo [{{ q }}] %}{% endfor %}", "{% wrap {{ n }} %}{{ s }}{% echo {{ k }} %}{% endwrap %}", "{% assign zz = n | plus: 1 %}{{ zz }}", "{% capture zc %}{{ n }}{% endcapture %}{{ zc }}",
		// date strings in several layouts (a parser that remembers what matched last would be shared state)
		"{{ '2017-07-09' | date: '%Y' }}{{ 'July 9, 2017' | date: '%m' }}", "{{ '2017-07-09T10:40:00Z' | date: '%H' }}{{ 'Jul 9 2017' | date: '%d' }}", "{{ '9 July 2017' | date: '%a' }}{{ '2017-07-09 10:40:00 +0100' | date: '%Z' }}")
	// templates that do not parse: the error path is shared state too
	broken := []string{"{% else %}", "{% if true %}{% when 1 %}{% endif %}", "{% endif %}", "{% for %}{% endfor %}", "{{ a b }}", "{% nosuchtag %}", "{% if true %}", "{% case 1 %}{% elsif 2 %}{% endcase %}", "{% tablerow x in a %}{% else %}{% endtablerow %}"}

	prof := hx.FullProfile()
	prof.Tablerow, prof.MaxNodes = true, 10
	total := env.PerShard(env.Pick(12000, 120000))
	var cases []*c04Case
	col.Rapid(chk.Sub, total, func(t *rapid.T) {
		size := 1 + (len(cases)*8)/total // 1..8
		c := &c04Case{Procs: procs}
		p := hx.GenProgram(t, prof)
		c.Binds = p.Binds
		for _, name := range []string{"a", "w", "x"} {
			c.Binds[name].Cap = rapid.IntRange(0, 3).Draw(t, "cap")
		}
		c.Binds["dm"] = hx.SMap("a", hx.SInt(1), "b", hx.SInt(2))
		c.Binds["dm"].Drop = 1
		c.Binds["s"].Drop = rapid.IntRange(0, 1).Draw(t, "sdrop")
		nt := rapid.IntRange(1, 1+size/2).Draw(t, "ntemplates")
		for i := 0; i < nt; i++ {
			src := ""
			if i == 0 {
				src = hx.Source(p.Nodes)
			} else {
				src = hx.Source(hx.GenProgram(t, prof).Nodes)
			}
			for j, k := 0, rapid.IntRange(0, 3).Draw(t, "nsnip"); j < k; j++ {
				src += rapid.SampledFrom(snippets).Draw(t, "snip")
			}
			if rapid.IntRange(0, 5).Draw(t, "broken") == 0 {
				src = rapid.SampledFrom(broken).Draw(t, "brokensrc")
			}
			c.Templates = append(c.Templates, src)
		}
		ng := rapid.IntRange(2, 2+size*4-2).Draw(t, "goroutines")
		if ng > 32 {
			ng = 32
		}
		for g := 0; g < ng; g++ {
			var ops []c04Op
			for o, n := 0, rapid.IntRange(1, 4).Draw(t, "nops"); o < n; o++ {
				op := c04Op{Parse: rapid.IntRange(0, 4).Draw(t, "parse") == 0, K: rapid.IntRange(0, nt-1).Draw(t, "k")}
				if !op.Parse && rapid.Bool().Draw(t, "other-entry") {
					op.Via = rapid.IntRange(1, 5).Draw(t, "via")
				}
				ops = append(ops, op)
			}
			c.Ops = append(c.Ops, ops)
		}
		// engine configuration: Delims with empty strings selects the defaults, so the templates stay valid
		switch rapid.IntRange(0, 7).Draw(t, "delims") {
		case 6, 7:
			// delimiters of its own: most likely a set this process has not seen before
			// (distinct first characters: four distinct, mutually non-prefixing strings, as C19 requires)
			c.Delims = []string{rapid.StringMatching(`[~!][=;?~!]{0,2}`).Draw(t, "od"), rapid.StringMatching(`[@#][=;?@#]{0,2}`).Draw(t, "cd"),
				rapid.StringMatching(`[\^&][=;?^&]{0,2}`).Draw(t, "ot"), rapid.StringMatching(`[*+][=;?*+]{0,2}`).Draw(t, "ct")}
		case 0:
			c.Delims = []string{"", "", "", ""}
		case 1:
			c.Delims = []string{"{{", "}}", "", ""}
		case 2:
			c.Delims = []string{"", "}}", "{%", ""}
		}
		c.Cold = rapid.IntRange(0, 3).Draw(t, "cold") == 0
		if c.Cold {
			// the cached include is registered by configuration-time parsing, which a cold engine has not done
			for i := range c.Templates {
				c.Templates[i] = strings.ReplaceAll(c.Templates[i], "{% include 'inc.html' %}", "")
			}
		}
		cases = append(cases, c)
	})
	chk.Sub.Evals = 0
	// committed regression cases run first (as subtests, like every other case)
	if env.Shard == 0 {
		files, _ := filepath.Glob(filepath.Join(hx.Root(), "corpus", "C04", "*.json"))
		sort.Strings(files)
		for _, f := range files {
			b, err := os.ReadFile(f)
			if err != nil {
				continue
			}
			var v struct {
				Case c04Case `json:"case"`
			}
			if json.Unmarshal(b, &v) == nil && len(v.Case.Templates) > 0 {
				c := v.Case
				cases = append([]*c04Case{&c}, cases...)
				chk.Sub.Requested++
				chk.Sub.Class("corpus-case")
			}
		}
	}

	seen := map[string]int{}
	c04ReadRaceLog(seen)
	reported := map[string]bool{}
	for n, c := range cases {
		c := c
		var v *hx.Violation
		col.Journal(hx.MustJSON(map[string]any{"check": "c04.concurrent", "case": c}))
		ok := t.Run(fmt.Sprintf("case%d", n), func(st *testing.T) {
			chk.Sub.Eval()
			v = c04Run(c)
		})
		if v != nil {
			v.Check, v.Case = "c04.concurrent", hx.MustJSON(c)
			col.Report(*v)
		}
		if !ok {
			// the testing package failed the subtest although the case itself did not: a race report
			sig, rep := raceSignature(c04ReadRaceLog(seen))
			if !reported[sig] {
				reported[sig] = true
				col.Report(hx.Violation{Check: "c04.concurrent", Sig: sig, Message: "the race detector reported a data race during this case:\n" + trunc(rep, 2500), Case: hx.MustJSON(c)})
			}
		}
		// coverage bookkeeping
		sameTpl := map[int]int{}
		for _, ops := range c.Ops {
			r := map[int]bool{}
			for _, op := range ops {
				if !op.Parse {
					r[op.K%len(c.Templates)] = true
				}
			}
			for k := range r {
				sameTpl[k]++
			}
		}
		for k, cnt := range sameTpl {
			if cnt >= 2 && strings.ContainsAny(c.Templates[k], "{") {
				chk.Sub.NTKey(fmt.Sprint(c.Templates, c.Ops))
				break
			}
			_ = k
		}
		for _, src := range c.Templates {
			for _, f := range si.Filters {
				if strings.Contains(src, "| "+f) {
					chk.Sub.Class("filter:" + f)
				}
			}
			for _, tag := range append(append([]string{}, si.Tags...), si.Blocks...) {
				if strings.Contains(src, "{% "+tag) {
					chk.Sub.Class("tag:" + tag)
				}
			}
		}
		if chk.Sub.WantSample() {
			chk.Sub.Sample(map[string]any{"templates": c.Templates, "goroutines": len(c.Ops), "gomaxprocs": procs})
		}
	}
}
