package props

import (
	"fmt"
	"regexp"
	"strings"
	"testing"

	"github.com/osteele/liquid/parser"
	"pgregory.net/rapid"

	"verifharness/hx"
)

// ---- C05: literal text, raw blocks and string values pass through byte-for-byte ----

type c05ScanCase struct {
	S     string `json:"s"`
	Start int    `json:"start"`
}

// scanLaw checks the tokenizer partition law; it is also the oracle of the native fuzz target.
func scanLaw(s string, start int) *hx.Violation {
	var toks []parser.Token
	if pi := hx.Guard(func() { toks = parser.Scan(s, parser.SourceLoc{Pathname: "p", LineNo: start}, nil) }); pi != nil {
		return hx.V("panic@"+pi.Site, "Scan(%q): %v", trunc(s, 200), pi)
	}
	var sb strings.Builder
	pos := 0
	for i, t := range toks {
		switch t.Type {
		case parser.TrimLeftTokenType, parser.TrimRightTokenType:
			if t.Source != "" {
				return hx.V("c05:trim-token-has-width", "Scan(%q): trim token %d has source %q", trunc(s, 200), i, t.Source)
			}
			continue
		}
		want := start + strings.Count(s[:min(pos, len(s))], "\n")
		if t.SourceLoc.LineNo != want {
			return hx.V("c05:token-line", "Scan(%q) starting at line %d: token %d (%q) is stamped with line %d; %d newlines precede it, so it begins on line %d", trunc(s, 200), start, i, trunc(t.Source, 60), t.SourceLoc.LineNo, want-start, want)
		}
		if t.SourceLoc.Pathname != "p" {
			return hx.V("c05:token-path", "Scan(%q): token %d lost the path", trunc(s, 200), i)
		}
		sb.WriteString(t.Source)
		pos += len(t.Source)
	}
	if sb.String() != s {
		return hx.V("c05:partition", "Scan(%q): the token sources concatenate to %q", trunc(s, 200), trunc(sb.String(), 200))
	}
	return nil
}

func interesting(s string) bool {
	for i := 0; i+1 < len(s); i++ {
		a, b := s[i], s[i+1]
		da, db := strings.IndexByte("{}%-", a) >= 0, strings.IndexByte("{}%-", b) >= 0
		if da && (db || b == '\n') || (a == '\n' && db) {
			return true
		}
	}
	return false
}

var c05Scan = hx.Define("c05.scan", func(c *c05ScanCase, s *hx.Sub) *hx.Violation {
	if v := scanLaw(c.S, c.Start); v != nil {
		return v
	}
	// identity: a source in which no tag or object opens renders to itself
	if !strings.Contains(c.S, "{{") && !strings.Contains(c.S, "{%") {
		o := hx.Render(c.S, nil)
		if o.Panic != nil {
			return hx.V("panic@"+o.Panic.Site, "render %q: %v", trunc(c.S, 200), o.Panic)
		}
		if !o.OK() || o.Out != c.S {
			return hx.V("c05:identity", "%q contains no {{ or {%% but renders %v", trunc(c.S, 200), trunc(o.String(), 200))
		}
		s.Class("identity-law")
	}
	if interesting(c.S) {
		if s.Exhaustive || len(c.S) <= 8 {
			s.NT()
		} else {
			s.NTKey(c.S)
		}
	}
	if s.WantSample() {
		s.Sample(map[string]any{"source": trunc(c.S, 200), "start_line": c.Start})
	}
	return nil
})

// reference: does body B keep to itself? every {{ or {% opening in B is closed inside B,
// B does not end in "{", and B contains no end tag of the enclosing block.
func selfContained(b, endName string) bool {
	// the body ends at the first end tag of its block, whatever else it contains; a body that holds
	// such a tag is a shorter body followed by other text
	return !regexp.MustCompile(`\{%-?\s*` + endName + `\s*-?%\}`).MatchString(b + "{% " + endName)
}

type c05BlockCase struct {
	Kind string `json:"kind"` // raw | comment
	X    string `json:"x"`
	B    string `json:"b"`
	Y    string `json:"y"`
}

var c05WholeToken = regexp.MustCompile(`(?s)\{\{.*?\}\}|\{%.*?%\}`)

var c05Block = hx.Define("c05.raw-comment", func(c *c05BlockCase, s *hx.Sub) *hx.Violation {
	if c.Kind == "both" {
		// a raw block and then a comment block with the same body in one template
		if !selfContained(c.B, "endraw") || !selfContained(c.B, "endcomment") || strings.Contains(c.X, "{") || strings.Contains(c.Y, "{") {
			s.Exclude()
			return nil
		}
		src := c.X + "{% raw %}" + c.B + "{% endraw %}" + c.Y + "{% comment %}" + c.B + "{% endcomment %}" + c.X
		o := hx.Render(src, map[string]any{"n": 1})
		if o.Panic != nil {
			return hx.V("panic@"+o.Panic.Site, "%q: %v", src, o.Panic)
		}
		if want := c.X + c.B + c.Y + c.X; !o.OK() || o.Out != want {
			return hx.V("c05:raw-then-comment", "%q rendered %v, expected %q", src, o, want)
		}
		s.NTKey(src)
		return nil
	}
	endArgs := ""
	if strings.HasSuffix(c.Kind, "-args") {
		// the end tag carries an argument (end tags ignore their arguments); the body holds whole objects and tags only,
		// and neither it nor the rest of the source names the end tag again
		c = &c05BlockCase{Kind: strings.TrimSuffix(c.Kind, "-args"), X: c.X, B: c.B, Y: c.Y}
		endArgs = " x"
		rest := c05WholeToken.ReplaceAllString(c.B, "")
		if strings.Contains(rest, "{{") || strings.Contains(rest, "{%") || strings.Contains(rest, "}}") || strings.Contains(rest, "%}") || strings.Contains(c.B+c.Y, "end"+c.Kind) || strings.ContainsAny(c.Y, "{}%") {
			s.Exclude()
			return nil
		}
	}
	if !selfContained(c.B, "end"+c.Kind) || strings.Contains(c.X, "{") || strings.Contains(c.Y, "{{") || strings.Contains(c.Y, "{%") {
		s.Exclude()
		return nil
	}
	src := c.X + "{% " + c.Kind + " %}" + c.B + "{% end" + c.Kind + endArgs + " %}" + c.Y
	o := hx.Render(src, map[string]any{"n": 1})
	if o.Panic != nil {
		return hx.V("panic@"+o.Panic.Site, "%q: %v", src, o.Panic)
	}
	want := c.X + c.Y
	if c.Kind == "raw" {
		want = c.X + c.B + c.Y
	}
	if !o.OK() {
		return hx.V("c05:"+c.Kind+"-error", "%q failed: %v (the body of a %s block is never evaluated)", src, o.Err, c.Kind)
	}
	if o.Out != want {
		return hx.V("c05:"+c.Kind+"-body", "%q rendered %q, expected %q", src, o.Out, want)
	}
	if interesting(c.B) || strings.Contains(c.B, "{") {
		s.NTKey(src)
	}
	if s.WantSample() {
		s.Sample(map[string]any{"template": src, "output": o.Out})
	}
	return nil
})

type c05ValueCase struct {
	V      string `json:"v"`
	Hex    bool   `json:"hex,omitempty"`
	Nested bool   `json:"nested,omitempty"`
	Rep    string `json:"rep,omitempty"` // how the string is bound: "" a string, named (a named string type), ptr (*string), drop (a Drop yielding it), elems (the only element of a []named)
}

// c05Bound is the string in the representation the case asks for
func (c *c05ValueCase) bound() any {
	switch c.Rep {
	case "named":
		return hx.NamedString(c.V)
	case "ptr":
		v := c.V
		return &v
	case "drop":
		return hx.Drop{V: c.V}
	case "elems":
		return []any{hx.NamedString(c.V)}
	}
	return c.V
}

var c05Value = hx.Define("c05.value", func(c *c05ValueCase, s *hx.Sub) *hx.Violation {
	src, binds := "[{{ v }}]", map[string]any{"v": c.bound()}
	if c.Nested {
		src, binds = "[{{ page.items[1].text }}]{% assign w = page.items[1].text %}[{{ w }}]{% capture c %}{{ w }}{% endcapture %}[{{ c }}]", map[string]any{"page": map[string]any{"items": []any{0, map[string]any{"text": c.bound()}}}}
	}
	o := hx.Render(src, binds)
	if o.Panic != nil {
		return hx.V("panic@"+o.Panic.Site, "printing a %d-byte value: %v", len(c.V), o.Panic)
	}
	want := "[" + c.V + "]"
	if c.Nested {
		want = want + want + want
	}
	if !o.OK() || o.Out != want {
		return hx.V("c05:value", "a string value of %d bytes (%q) printed by %s came out as %q", len(c.V), trunc(c.V, 120), src, trunc(o.String(), 160))
	}
	if len(c.V) > 0 {
		s.NTKey(c.V)
	}
	if s.WantSample() {
		s.Sample(map[string]any{"value": trunc(c.V, 120), "bytes": len(c.V)})
	}
	return nil
})

// a string value is emitted exactly also when the neighbouring tag or object carries a hyphen:
// whitespace control is about literal text, never about a value

type c05EdgeCase struct {
	V    string `json:"v"`
	Form int    `json:"form"`
}

var c05EdgeForms = []string{
	"[{{ v }}{{- x }}]", "[{{ x -}}{{ v }}]", "[{{ v }}{%- assign q = 1 %}]", "[{% assign q = 1 -%}{{ v }}]",
	"[{{- v -}}]", "{% for i in (1..2) %}<{{ v }}{%- if true -%}{{ v }}{%- endif -%}>{% endfor %}",
	"[{{ x -}}{{ v }}{{- x }}]", "[{% if true -%}{{ v }}{%- endif %}]", "[{{ v }}{%- comment %} c {% endcomment -%}{{ v }}]",
}

// shapes in which § is literal text or a raw body that is NOT adjacent to a hyphen:
// every hyphen faces blank literal text of its own, which it consumes entirely
// (C13's exact case); second column: what must come out
var c05TextForms = [][2]string{
	{"[§{% assign q = 1 -%} \n {%- assign r = 2 %}]", "[§]"},
	{"[{% raw %}§{% endraw -%}  {%- assign q = 1 %}]", "[§]"},
	{"[{% assign q = 1 -%} \n {%- assign r = 2 %}§]", "[§]"},
	{"§{% if true -%} {%- endif %}", "§"},
	// a raw body is emitted exactly as written: hyphens of its neighbours face the raw / endraw tags, not text
	{"[{{ x -}}{% raw %}§{% endraw %}{{- x }}]", "[X§X]"},
	{"{% assign q = 1 -%}{% raw %}§{% endraw %}{%- assign r = 1 %}|", "§|"},
	{"[{% if true -%}{% raw %}§{% endraw %}{%- endif %}]", "[§]"},
}

var c05Edge = hx.Define("c05.value-beside-hyphen", func(c *c05EdgeCase, s *hx.Sub) *hx.Violation {
	if c.Form >= len(c05EdgeForms) {
		f := c05TextForms[(c.Form-len(c05EdgeForms))%len(c05TextForms)]
		src, want := strings.ReplaceAll(f[0], "§", c.V), strings.ReplaceAll(f[1], "§", c.V)
		o := hx.Render(src, map[string]any{"e": "", "x": "X"})
		if o.Panic != nil {
			return hx.V("panic@"+o.Panic.Site, "%q: %v", src, o.Panic)
		}
		if !o.OK() || o.Out != want {
			return hx.V("c05:text-trimmed", "%q renders %s; the text %q is not adjacent to any hyphen (every hyphen faces blank text of its own) and is to come out exactly: %q", src, o, c.V, want)
		}
		if strings.TrimSpace(c.V) != c.V {
			s.NTKey(src)
		}
		return nil
	}
	src := c05EdgeForms[c.Form%len(c05EdgeForms)]
	o := hx.Render(src, map[string]any{"v": c.V, "x": "X"})
	if o.Panic != nil {
		return hx.V("panic@"+o.Panic.Site, "%s with v=%q: %v", src, c.V, o.Panic)
	}
	// expected: every {{ v }} prints v exactly; hyphens only ever touch literal text (there is none next to them here)
	want := hx.Render(strings.NewReplacer("{{-", "{{", "-}}", "}}", "{%-", "{%", "-%}", "%}").Replace(src), map[string]any{"v": c.V, "x": "X"})
	if !o.OK() || !want.OK() || o.Out != want.Out {
		return hx.V("c05:value-trimmed", "%s with v = %q renders %q; without the hyphens (no literal text is adjacent to any of them) it renders %q: the value was not emitted exactly", src, c.V, o.Out, want.Out)
	}
	if strings.TrimSpace(c.V) != c.V {
		s.NTKey(src + c.V)
	}
	if s.WantSample() {
		s.Sample(map[string]any{"template": src, "v": c.V, "output": o.Out})
	}
	return nil
})

var c05Sigma = []string{"{", "}", "%", "-", "\"", " ", "\n", "a"}

func TestC05(t *testing.T) {
	col := hx.NewCollector("C05")
	defer col.Finish()
	col.Corpus()
	env := col.Env

	L := env.Pick(6, 8)
	scan := c05Scan.On(col, fmt.Sprintf("bounded-exhaustive: every string of length 0..%d over { } %% - \" space newline a, tokenized with starting lines 0, 1 and 7; then rapid: byte strings and valid UTF-8 strings up to 64 KiB built from delimiter fragments, tag-like snippets and arbitrary bytes. Oracle: tokenizer partition law (token sources concatenate to the input, trim tokens are zero-width, every token's line = starting line + newlines before it, path kept); identity law (no {{ and no {%% => renders to itself). Non-trivial: a delimiter character adjacent to another delimiter character or a newline; distinct by string", L), false)
	idx := 0
	var rec func(cur []byte, n int)
	rec = func(cur []byte, n int) {
		idx++
		if env.Mine(idx) {
			scan.Run(&c05ScanCase{S: string(cur), Start: []int{0, 1, 7}[idx%3]})
		}
		if n == 0 {
			return
		}
		for _, ch := range c05Sigma {
			rec(append(cur, ch...), n-1)
		}
	}
	// shard the enumeration by its first two symbols so that no worker walks the whole tree
	rec(nil, 1)
	k := 0
	for _, a := range c05Sigma {
		for _, b := range c05Sigma {
			k++
			if k%env.NShards != env.Shard {
				continue
			}
			var sub func(cur []byte, n int)
			sub = func(cur []byte, n int) {
				scan.Sub.Eval()
				c := &c05ScanCase{S: string(cur), Start: []int{0, 1, 7}[len(cur)%3]}
				if v := c05Scan.Eval(c, scan.Sub); v != nil {
					v.Check, v.Case = "c05.scan", hx.MustJSON(c)
					col.Report(*v)
				}
				if n == 0 {
					return
				}
				for _, ch := range c05Sigma {
					sub(append(cur, ch...), n-1)
				}
			}
			sub([]byte(a+b), L-2)
		}
	}
	scan.Sub.Note("the enumeration up to length %d is complete over all shards", L)

	frag := []string{"{{", "}}", "{%", "%}", "{{-", "-}}", "{%-", "-%}", "\n", " ", "\r\n", "{", "}", "%", "-", "a", "x y", "if", "raw", "endraw", "comment", "\"", "'", "é", "😀", "\x00", "\xff", "{% raw %}", "{% endraw %}", "{{ x }}", "{%\nif x\n%}",
		// characters an input-normalising step might touch: byte-order mark, other line ends, invisible and replacement characters
		"\ufeff", "\r", "\t", "\v", "\f", "\u2028", "\u0085", "\u00a0", "\u200b", "\ufffd", "\x1a", "\xef\xbb", "\xef\xbb\xbf{{ x }}"}
	genSrc := rapid.Custom(func(t *rapid.T) string {
		n := rapid.SampledFrom([]int{4, 8, 16, 64, 400, 4000, 16000}).Draw(t, "size")
		var sb strings.Builder
		for i, m := 0, rapid.IntRange(1, n).Draw(t, "n"); i < m && sb.Len() < 65536; i++ {
			if rapid.IntRange(0, 7).Draw(t, "raw") == 0 {
				sb.Write(rapid.SliceOfN(rapid.Byte(), 1, 8).Draw(t, "bytes"))
			} else {
				sb.WriteString(rapid.SampledFrom(frag).Draw(t, "frag"))
			}
		}
		return sb.String()
	})
	col.Rapid(scan.Sub, env.PerShard(env.Pick(100000, 1500000)), func(t *rapid.T) {
		c := &c05ScanCase{S: genSrc.Draw(t, "s"), Start: rapid.SampledFrom([]int{0, 1, 7, 1000}).Draw(t, "start")}
		if v := scan.Run(c); v != nil {
			t.Fatalf("%s", v.Message)
		}
	})

	blk := c05Block.On(col, "bounded-exhaustive: X{% raw %}B{% endraw %}Y and X{% comment %}B{% endcomment %}Y for every body B of length 0..5 over the same alphabet that does not contain the block's own end tag (unclosed {{ and {% openers, empty objects, malformed tags and all) with X, Y from a small set; then rapid: bodies built from tag-like text, failing constructs (unknown tags and filters, syntax errors, division by zero), multi-line and non-ASCII text. Oracle: raw => X+B+Y; comment => X+Y and no error. Excluded bodies are counted. Non-trivial: the body contains a delimiter character; distinct by template", false)
	xs := []string{"", "a", " \n", "}}", "\ufeff"}
	var bodies func(cur []byte, n int)
	bodies = func(cur []byte, n int) {
		idx++
		if env.Mine(idx) {
			for _, kind := range []string{"raw", "comment", "both", "raw-args", "comment-args"} {
				blk.Run(&c05BlockCase{Kind: kind, X: xs[idx%len(xs)], B: string(cur), Y: xs[(idx/4)%len(xs)]})
			}
		}
		if n == 0 {
			return
		}
		for _, ch := range c05Sigma {
			bodies(append(cur, ch...), n-1)
		}
	}
	bodies(nil, env.Pick(4, 5))
	bodyFrag := []string{"{{ n }}", "{{ n | no_such_filter }}", "{{ 1 | divided_by: 0 }}", "{% if %}", "{% nosuchtag %}", "{% for %}", "{% endif %}", "{% else %}", "{{ a b c }}", "{% assign x = %}", "text", " ", "\n", "é", "{%- x -%}", "{{- n -}}", "{% if true %}", "{% raw %}", "{% comment %}", "{{ 'a' }}", "}}", "%}", "-"}
	col.Rapid(blk.Sub, env.PerShard(env.Pick(60000, 800000)), func(t *rapid.T) {
		c := &c05BlockCase{Kind: rapid.SampledFrom([]string{"raw", "comment", "both", "raw-args", "comment-args"}).Draw(t, "kind"),
			X: rapid.SampledFrom([]string{"", "x", "line\n", " ", "}} %}"}).Draw(t, "x"),
			B: strings.Join(rapid.SliceOfN(rapid.SampledFrom(bodyFrag), 0, 8).Draw(t, "b"), ""),
			Y: rapid.SampledFrom([]string{"", "y", "\n", " }} ", "%}"}).Draw(t, "y")}
		if v := blk.Run(c); v != nil {
			t.Fatalf("%s", v.Message)
		}
	})

	edge := c05Edge.On(col, "exhaustive: nine shapes in which an object printing v stands directly next to a hyphenated object or tag (no literal text between them), and four shapes in which literal text or a raw body v is separated from the nearest hyphens by blank text that those hyphens face and consume, x values v with white space at either edge (spaces, tabs, newlines, NBSP, only white space, none); metamorphic oracle: same output as the template without the hyphens, i.e. v is emitted exactly. Non-trivial: v has white space at an edge; distinct by shape+value", true)
	for fi := 0; fi < len(c05EdgeForms)+len(c05TextForms); fi++ {
		for vi, v := range []string{"  val  ", "val", " \tlead", "trail\n\n", " ", "", "\u00a0nb\u00a0", "a b", "\n"} {
			if env.Mine(fi*16 + vi) {
				edge.Run(&c05EdgeCase{V: v, Form: fi})
			}
		}
	}

	val := c05Value.On(col, "rapid: string values - arbitrary bytes, valid UTF-8, HTML/URL specials, delimiter text ({{ x }}, {% raw %}), white space at the edges, up to 64 KiB - printed by an object directly and after a nested lookup, assign and capture; oracle: emitted exactly. Non-trivial: non-empty; distinct by value", false)
	vfrag := []string{"%", "%d", "%!s", "100%", "<", ">", "&", "\"", "'", "{{ x }}", "{% raw %}", "%}", " ", "\n", "\t", "é", "😀", "\x00", "\xff\xfe", "&amp;", "%20", "\\", "a", "\ufeff", "\r\n", "\u2028", "\u200b"}
	col.Rapid(val.Sub, env.PerShard(env.Pick(40000, 400000)), func(t *rapid.T) {
		var v string
		if rapid.Bool().Draw(t, "bytes") {
			v = string(rapid.SliceOfN(rapid.Byte(), 0, rapid.SampledFrom([]int{8, 64, 2000, 65536}).Draw(t, "max")).Draw(t, "raw"))
		} else {
			v = strings.Join(rapid.SliceOfN(rapid.SampledFrom(vfrag), 0, 40).Draw(t, "frags"), "")
			if rapid.IntRange(0, 20).Draw(t, "big") == 0 {
				v = strings.Repeat(v+"x", 65536/(len(v)+1))
			}
		}
		c := &c05ValueCase{V: v, Nested: rapid.Bool().Draw(t, "nested"), Rep: rapid.SampledFrom([]string{"", "", "named", "ptr", "drop", "elems"}).Draw(t, "rep")}
		if res := val.Run(c); res != nil {
			t.Fatalf("%s", res.Message)
		}
	})
}
