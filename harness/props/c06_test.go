package props

import (
	"fmt"
	"strings"
	"testing"

	"github.com/osteele/liquid"
	"github.com/osteele/liquid/render"
	"pgregory.net/rapid"

	"verifharness/hx"
)

// ---- C06: a template is accepted iff its block tags are properly nested and closed ----

type c06Sym struct {
	kind string // open clause end tag obj text
	name string
	src  string
}

var c06Alphabet = []c06Sym{
	{"open", "if", "{% if true %}"}, {"open", "unless", "{% unless false %}"}, {"open", "case", "{% case 1 %}"},
	{"open", "for", "{% for x in a %}"}, {"open", "tablerow", "{% tablerow x in a %}"}, {"open", "capture", "{% capture c %}"},
	{"open", "comment", "{% comment %}"}, {"open", "raw", "{% raw %}"},
	{"clause", "else", "{% else %}"}, {"clause", "elsif", "{% elsif true %}"}, {"clause", "when", "{% when 1 %}"},
	{"end", "if", "{% endif %}"}, {"end", "unless", "{% endunless %}"}, {"end", "case", "{% endcase %}"},
	{"end", "for", "{% endfor %}"}, {"end", "tablerow", "{% endtablerow %}"}, {"end", "capture", "{% endcapture %}"},
	{"end", "comment", "{% endcomment %}"}, {"end", "raw", "{% endraw %}"},
	{"tag", "assign", "{% assign v = 1 %}"}, {"obj", "", "{{ 1 }}"}, {"text", "", ""},
}

var c06Admits = map[string]map[string]bool{
	"else":  {"if": true, "unless": true, "case": true, "for": true},
	"elsif": {"if": true},
	"when":  {"case": true},
}

// reference tree
type c06Node struct {
	kind    string // block text obj tag raw
	name    string
	text    string
	body    []*c06Node
	clauses []*c06Node // kind "clause", name else/elsif/when
}

// c06Accept is the reference acceptor: a stack machine with comment/raw modes.
// It returns the reference tree when the sequence is accepted.
func c06Accept(seq []int, style ...int) (root *c06Node, ok bool) {
	st := 0
	if len(style) > 0 {
		st = style[0]
	}
	root = &c06Node{kind: "root"}
	type frame struct {
		block *c06Node
		ap    *c06Node // node whose body receives items (the block or its current clause)
	}
	stack := []frame{{root, root}}
	mode := ""
	var rawNode *c06Node
	for i, si := range seq {
		sym := c06Alphabet[si]
		src := sym.src
		if sym.kind == "text" {
			src = fmt.Sprintf("<t%d>", i)
		}
		if mode != "" {
			if sym.kind == "end" && sym.name == mode {
				mode = ""
			} else if rawNode != nil {
				rawNode.text += c06Styled(src, st) // the body of a raw block is emitted in the spelling it was written in
			}
			continue
		}
		top := &stack[len(stack)-1]
		switch sym.kind {
		case "text":
			top.ap.body = append(top.ap.body, &c06Node{kind: "text", text: src})
		case "obj":
			top.ap.body = append(top.ap.body, &c06Node{kind: "obj", text: "1"})
		case "tag":
			top.ap.body = append(top.ap.body, &c06Node{kind: "tag", name: sym.name})
		case "open":
			switch sym.name {
			case "comment":
				mode, rawNode = "comment", nil
			case "raw":
				mode = "raw"
				rawNode = &c06Node{kind: "raw"}
				top.ap.body = append(top.ap.body, rawNode)
			default:
				b := &c06Node{kind: "block", name: sym.name}
				top.ap.body = append(top.ap.body, b)
				stack = append(stack, frame{b, b})
			}
		case "clause":
			if len(stack) == 1 || !c06Admits[sym.name][top.block.name] {
				return nil, false
			}
			cl := &c06Node{kind: "clause", name: sym.name}
			top.block.clauses = append(top.block.clauses, cl)
			top.ap = cl
		case "end":
			if len(stack) == 1 || top.block.name != sym.name {
				return nil, false
			}
			stack = stack[:len(stack)-1]
		}
	}
	if len(stack) != 1 || mode != "" {
		return nil, false
	}
	return root, true
}

func c06Source(seq []int) string {
	var sb strings.Builder
	for i, si := range seq {
		if c06Alphabet[si].kind == "text" {
			fmt.Fprintf(&sb, "<t%d>", i)
		} else {
			sb.WriteString(c06Alphabet[si].src)
		}
	}
	return sb.String()
}

// c06Expect renders the reference tree under "all conditions true, collections of one
// element"; ok=false when the clause order makes the choice of branch a matter C10 leaves open.
func c06Expect(n *c06Node, sb *strings.Builder) bool {
	for _, it := range n.body {
		switch it.kind {
		case "text", "raw":
			sb.WriteString(it.text)
		case "obj":
			sb.WriteString("1")
		case "block":
			// else must be the last clause for the branch choice to be defined
			for i, cl := range it.clauses {
				if cl.name == "else" && i != len(it.clauses)-1 {
					return false
				}
			}
			switch it.name {
			case "if", "unless", "for", "tablerow":
				if !c06Expect(it, sb) {
					return false
				}
			case "case":
				// the body before the first clause is not rendered; the first when (1 == 1) wins, else otherwise
				if len(it.clauses) > 0 {
					if !c06Expect(it.clauses[0], sb) {
						return false
					}
				}
			case "capture":
				var discard strings.Builder
				if !c06Expect(it, &discard) {
					return false
				}
			}
		}
	}
	return true
}

// c06Shape describes the implementation's render tree in the same vocabulary.
func c06Shape(n render.Node, sb *strings.Builder) {
	switch x := n.(type) {
	case *render.SeqNode:
		for _, c := range x.Children {
			c06Shape(c, sb)
		}
	case *render.BlockNode:
		sb.WriteString("(" + x.Name)
		for _, c := range x.Body {
			c06Shape(c, sb)
		}
		for _, cl := range x.Clauses {
			sb.WriteString("/" + cl.Name)
			for _, c := range cl.Body {
				c06Shape(c, sb)
			}
		}
		sb.WriteString(")")
	case *render.TextNode:
		sb.WriteString(x.Source)
	case *render.ObjectNode:
		sb.WriteString("{obj}")
	case *render.TagNode:
		sb.WriteString("{" + x.Name + "}")
	case *render.RawNode:
		sb.WriteString("{raw}")
	case *render.TrimNode:
	default:
		fmt.Fprintf(sb, "{?%T}", n)
	}
}

func c06RefShape(n *c06Node, sb *strings.Builder) {
	for _, it := range n.body {
		switch it.kind {
		case "text":
			sb.WriteString(it.text)
		case "obj":
			sb.WriteString("{obj}")
		case "tag":
			sb.WriteString("{" + it.name + "}")
		case "raw":
			sb.WriteString("{raw}")
		case "block":
			sb.WriteString("(" + it.name)
			c06RefShape(it, sb)
			for _, cl := range it.clauses {
				sb.WriteString("/" + cl.name)
				c06RefShape(cl, sb)
			}
			sb.WriteString(")")
		}
	}
}

type c06Case struct {
	Seq   []int `json:"seq"`
	Style int   `json:"style,omitempty"` // 0 plain; 1 {%- tag -%}; 2 {%-tag-%} (hyphens glued to the tag); 3 {%tag%}; 4 an engine with the delimiters [[ ]] [% %]; 5 tag arguments spanning lines
}

// c06Styled re-spells the tags of a source in another, equally valid style.
func c06Styled(src string, style int) string {
	switch style {
	case 1:
		return strings.NewReplacer("{% ", "{%- ", " %}", " -%}").Replace(src)
	case 2:
		return strings.NewReplacer("{% ", "{%-", " %}", "-%}").Replace(src)
	case 3:
		return strings.NewReplacer("{% ", "{%", " %}", "%}").Replace(src)
	case 5: // tag arguments that span lines
		return strings.NewReplacer("{% if true %}", "{% if true and\n true %}", "{% unless false %}", "{% unless false and\n true %}", "{% for x in a %}", "{% for x\n in\na %}",
			"{% tablerow x in a %}", "{% tablerow x in a\n cols: 2 %}", "{% elsif true %}", "{% elsif true or\n false %}", "{% when 1 %}", "{% when 1,\n 2 %}", "{% assign v = 1 %}", "{% assign v =\n 1 %}").Replace(src)
	case 4: // an engine configured with other delimiters (C19: equivalent to the defaults)
		return strings.NewReplacer("{% ", "[% ", " %}", " %]", "{{ ", "[[ ", " }}", " ]]").Replace(src)
	}
	return src
}

var c06Engine = liquid.NewEngine()
var c06EngineAlt = func() *liquid.Engine {
	e := liquid.NewEngine()
	e.Delims("[[", "]]", "[%", "%]")
	return e
}()
var c06Binds = map[string]any{"a": []any{1}}

func c06Check(seq []int, s *hx.Sub, style int) *hx.Violation {
	c06Engine := c06Engine
	if style == 4 {
		c06Engine = c06EngineAlt
	}
	src := c06Styled(c06Source(seq), style)
	ref, accept := c06Accept(seq, style)
	var tpl *liquid.Template
	var perr liquid.SourceError
	if pi := hx.Guard(func() { tpl, perr = c06Engine.ParseString(src) }); pi != nil {
		return hx.V("panic@"+pi.Site, "%s: %v", src, pi)
	}
	if accept != (perr == nil) {
		if accept {
			return hx.V("c06:rejected-well-nested", "%s is properly nested and closed but parsing fails: %v", src, perr)
		}
		return hx.V("c06:accepted-ill-nested", "%s is not properly nested and closed but parses", src)
	}
	if !accept {
		out, err := c06Engine.ParseAndRenderString(src, c06Binds)
		if err == nil || out != "" {
			return hx.V("c06:output-on-rejection", "%s: ParseAndRender returned %q, %v", src, out, err)
		}
		return nil
	}
	var got, want strings.Builder
	c06Shape(tpl.GetRoot(), &got)
	c06RefShape(ref, &want)
	if got.String() != want.String() {
		return hx.V("c06:tree", "%s: the parsed tree is %s, the textual nesting is %s", src, got.String(), want.String())
	}
	var exp strings.Builder
	if c06Expect(ref, &exp) {
		var out string
		var rerr liquid.SourceError
		if pi := hx.Guard(func() { out, rerr = tpl.RenderString(c06Binds) }); pi != nil {
			return hx.V("panic@"+pi.Site, "%s: %v", src, pi)
		}
		if rerr != nil {
			// the only render-time objection to a well-nested sequence of these tags: a for with several else clauses
			if !strings.Contains(rerr.Error(), "at most one else") {
				return hx.V("c06:render-error", "%s: %v", src, rerr)
			}
			s.Unspec()
			return nil
		}
		if o := rowTags.ReplaceAllString(out, ""); o != exp.String() {
			return hx.V("c06:content-placement", "%s with all conditions true and one-element collections rendered %q, expected %q: each piece of content is rendered under exactly the blocks and clauses that enclose it", src, o, exp.String())
		}
	} else {
		s.Unspec()
	}
	return nil
}

func c06Structural(seq []int) bool {
	for _, si := range seq {
		if k := c06Alphabet[si].kind; k == "open" || k == "clause" || k == "end" {
			return true
		}
	}
	return false
}

var c06Seq = hx.Define("c06.sequences", func(c *c06Case, s *hx.Sub) *hx.Violation {
	for _, si := range c.Seq {
		if si < 0 || si >= len(c06Alphabet) {
			return hx.V("harness-error", "bad symbol %d", si)
		}
	}
	if v := c06Check(c.Seq, s, c.Style); v != nil {
		return v
	}
	if c06Structural(c.Seq) {
		if len(c.Seq) <= 7 {
			s.NT()
		} else {
			s.NTKey(fmt.Sprint(c.Seq))
		}
	}
	if s.WantSample() {
		_, acc := c06Accept(c.Seq)
		s.Sample(map[string]any{"template": c06Source(c.Seq), "accepted": acc})
	}
	return nil
})

func symIndex(kind, name string) int {
	for i, s := range c06Alphabet {
		if s.kind == kind && s.name == name {
			return i
		}
	}
	panic("no symbol " + kind + " " + name)
}

// genTree draws a well-nested token sequence of depth <= maxDepth.
func c06GenTree(t *rapid.T, depth, maxDepth int, out *[]int) {
	for i, n := 0, rapid.IntRange(0, 3).Draw(t, "items"); i < n; i++ {
		// deep trees are spines with little foliage: the sequence stays below ~300 tokens
		switch k := rapid.IntRange(0, 9).Draw(t, "k"); {
		case k < 3 || depth >= maxDepth || len(*out) > 250 || (depth > 3 && i > 0):
			*out = append(*out, []int{symIndex("text", ""), symIndex("obj", ""), symIndex("tag", "assign")}[k%3])
		default:
			name := rapid.SampledFrom([]string{"if", "unless", "case", "for", "tablerow", "capture", "comment", "raw", "if", "for"}).Draw(t, "block")
			*out = append(*out, symIndex("open", name))
			if name == "comment" || name == "raw" {
				// arbitrary, possibly unbalanced content
				for j, m := 0, rapid.IntRange(0, 3).Draw(t, "junk"); j < m; j++ {
					sym := rapid.IntRange(0, len(c06Alphabet)-1).Draw(t, "junksym")
					if c06Alphabet[sym].kind == "end" && c06Alphabet[sym].name == name {
						continue
					}
					*out = append(*out, sym)
				}
			} else {
				c06GenTree(t, depth+1, maxDepth, out)
				var clauses []string
				switch name {
				case "if":
					clauses = []string{"elsif", "elsif", "else"}
				case "unless", "for":
					clauses = []string{"else"}
				case "case":
					clauses = []string{"when", "when", "else"}
				}
				for _, cl := range clauses {
					if rapid.Bool().Draw(t, "clause") {
						*out = append(*out, symIndex("clause", cl))
						c06GenTree(t, depth+1, maxDepth, out)
					}
				}
			}
			*out = append(*out, symIndex("end", name))
		}
	}
}

// a raw or comment block is closed by its own end tag whatever its body holds - an opening delimiter that is
// never closed, too - and under every engine's delimiters, in whatever order the engines of a process are used

type c06OpaqueCase struct {
	Kind   string `json:"kind"`   // raw | comment
	Opener int    `json:"opener"` // what the body holds: 0 an object opener, 1 a tag opener and a name, 2 both
	Order  []int  `json:"order"`  // the delimiter sets, in the order in which their engines are used
}

var c06DelimSets = [][4]string{{"{{", "}}", "{%", "%}"}, {"<<", ">>", "<%", "%>"}, {"[[", "]]", "[%", "%]"}}

var c06Opaque = hx.Define("c06.opaque-bodies", func(c *c06OpaqueCase, s *hx.Sub) *hx.Violation {
	for _, di := range c.Order {
		d := c06DelimSets[di%len(c06DelimSets)]
		body := []string{"note " + d[0] + " ", "note " + d[2] + " if ", "n " + d[0] + " o " + d[2] + " for "}[c.Opener%3]
		src := "a" + d[2] + " " + c.Kind + " " + d[3] + body + d[2] + " end" + c.Kind + " " + d[3] + "b" + d[0] + " x " + d[1] + "c" + d[2] + " assign q = 1 " + d[3]
		want := "ab1c"
		if c.Kind == "raw" {
			want = "a" + body + "b1c"
		}
		eng := newEngine(nil)
		if di != 0 {
			eng.Delims(d[0], d[1], d[2], d[3])
		}
		o := hx.RenderWith(eng, src, map[string]any{"x": 1})
		if o.Panic != nil {
			return hx.V("panic@"+o.Panic.Site, "Delims%q on %q: %v", d, src, o.Panic)
		}
		if !o.OK() || o.Out != want {
			return hx.V("c06:closed-block-rejected", "with the delimiters %q (engines used in the order %v) the template %q, whose %s block is closed by its own end tag, gives %v; expected %q", d, c.Order, src, c.Kind, o, want)
		}
	}
	s.NT()
	if s.WantSample() {
		s.Sample(map[string]any{"kind": c.Kind, "opener": c.Opener, "order": c.Order})
	}
	return nil
})

func TestC06(t *testing.T) {
	col := hx.NewCollector("C06")
	defer col.Finish()
	col.Corpus()
	env := col.Env

	op := c06Opaque.On(col, "exhaustive over a list: raw and comment blocks closed by their own end tag whose body holds an unclosed object opener, an unclosed tag opener, or both, followed by an object and a tag; written with three delimiter sets whose engines are used one after another in every order within one process. Oracle: accepted, and renders the text around the block (and the raw body verbatim). Distinct by construction", true)
	{
		i := 0
		for _, kind := range []string{"raw", "comment"} {
			for opener := 0; opener < 3; opener++ {
				for _, order := range [][]int{{0, 1, 2}, {1, 0, 2}, {2, 1, 0}, {1, 2, 0}, {0, 2, 1}, {2, 0, 1}} {
					i++
					// (every shard runs every case: what a process remembers from its first engine is the point)
					_ = env
					op.Run(&c06OpaqueCase{Kind: kind, Opener: opener, Order: order})
				}
			}
		}
	}

	N := env.Pick(5, 6)
	seqs := c06Seq.On(col, fmt.Sprintf("bounded-exhaustive: every token sequence of length 0..%d over the 22-symbol alphabet {8 block opens, else/elsif/when, 8 end tags, a plain tag, an object, text} with fixed valid arguments; then rapid: well-nested trees up to depth 40 and the same trees after one edit (delete a token, insert a stray end/clause tag, swap neighbours, rename an end tag). Oracle: ParseTemplate succeeds iff the reference acceptor (stack machine; comment/raw are modes ended by their own end tag; else admitted by if/unless/case/for, elsif by if, when by case; empty stack and no open mode at the end) accepts; a rejected source renders nothing; for accepted sources the render tree (Template.GetRoot) equals the reference tree and a render with all conditions true and one-element collections shows exactly the markers of the first branches in order. Non-trivial: the sequence contains a block-structural token; distinct by sequence", N), false)
	seqs.Hang = nil
	// exhaustive part: shard by the first two symbols
	K := len(c06Alphabet)
	runSeq := func(seq []int) {
		seqs.Sub.Eval()
		c := &c06Case{Seq: seq}
		if len(seq) <= 3 {
			// the short sequences also in every other spelling, incl. an engine with its own delimiters
			for st := 1; st <= 5; st++ {
				seqs.Sub.Eval()
				cs := &c06Case{Seq: seq, Style: st}
				if v := c06Seq.Eval(cs, seqs.Sub); v != nil {
					v.Check, v.Case = "c06.sequences", hx.MustJSON(cs)
					col.Report(*v)
				}
			}
		}
		if v := c06Seq.Eval(c, seqs.Sub); v != nil {
			v.Check, v.Case = "c06.sequences", hx.MustJSON(c)
			col.Report(*v)
		}
	}
	if env.Shard == 0 {
		runSeq(nil)
		for a := 0; a < K; a++ {
			runSeq([]int{a})
		}
	}
	k := 0
	buf := make([]int, 0, N)
	var rec func(n int)
	rec = func(n int) {
		runSeq(append([]int{}, buf...))
		if n == 0 {
			return
		}
		for s := 0; s < K; s++ {
			buf = append(buf, s)
			rec(n - 1)
			buf = buf[:len(buf)-1]
		}
	}
	for a := 0; a < K; a++ {
		for b := 0; b < K; b++ {
			k++
			if k%env.NShards != env.Shard {
				continue
			}
			buf = append(buf[:0], a, b)
			rec(N - 2)
		}
	}
	// wide and deep: many sibling blocks, and long chains of nested ones (what counts is what is open, not how much there is)
	if env.Shard == 1%env.NShards {
		oi, ei, ti := symIndex("open", "if"), symIndex("end", "if"), symIndex("text", "")
		ofor, efor := symIndex("open", "for"), symIndex("end", "for")
		for _, k := range []int{60, 101, 150, 400} {
			var wide []int
			for i := 0; i < k; i++ {
				if i%2 == 0 {
					wide = append(wide, oi, ti, ei)
				} else {
					wide = append(wide, ofor, ti, efor)
				}
			}
			runSeq(wide)
			runSeq(wide[:len(wide)-1]) // the last block left open
		}
		for _, d := range []int{41, 101, 150} {
			var deep []int
			for i := 0; i < d; i++ {
				deep = append(deep, oi)
			}
			deep = append(deep, ti)
			for i := 0; i < d; i++ {
				deep = append(deep, ei)
			}
			runSeq(deep)
			runSeq(deep[1:]) // one end tag too many
		}
	}
	seqs.Sub.Note("the enumeration up to length %d (22^0+...+22^%d sequences) is complete over all shards", N, N)

	col.Rapid(seqs.Sub, env.PerShard(env.Pick(40000, 1000000)), func(t *rapid.T) {
		var seq []int
		c06GenTree(t, 0, rapid.SampledFrom([]int{2, 4, 8, 40}).Draw(t, "maxdepth"), &seq)
		seqs.Sub.Class("well-nested")
		if len(seq) > 0 && rapid.Bool().Draw(t, "edit") {
			i := rapid.IntRange(0, len(seq)-1).Draw(t, "at")
			switch rapid.IntRange(0, 3).Draw(t, "edit-kind") {
			case 0:
				seq = append(seq[:i:i], seq[i+1:]...)
			case 1:
				ins := rapid.IntRange(symIndex("clause", "else"), symIndex("end", "raw")).Draw(t, "stray")
				seq = append(seq[:i:i], append([]int{ins}, seq[i:]...)...)
			case 2:
				if i+1 < len(seq) {
					seq[i], seq[i+1] = seq[i+1], seq[i]
				}
			default:
				if c06Alphabet[seq[i]].kind == "end" {
					seq[i] = rapid.IntRange(symIndex("end", "if"), symIndex("end", "raw")).Draw(t, "rename")
				}
			}
			seqs.Sub.Class("one-edit")
		}
		if v := seqs.Run(&c06Case{Seq: seq, Style: rapid.IntRange(0, 5).Draw(t, "style")}); v != nil {
			t.Fatalf("%s", v.Message)
		}
	})
}
