package props

import (
	"errors"
	"fmt"
	"strings"
	"testing"

	"github.com/osteele/liquid"
	"github.com/osteele/liquid/expressions"
	"github.com/osteele/liquid/render"
	"github.com/osteele/liquid/values"
	"pgregory.net/rapid"

	"verifharness/hx"
)

// ---- C07: every failure is a SourceError that locates the offending tag or object ----

type c07Case struct {
	Kind     string   `json:"kind"`
	Wrappers []string `json:"wrappers"` // enclosing blocks that are entered, outermost first
	Gaps     []int    `json:"gaps"`     // newlines inserted at each gap (cyclic)
	Path     string   `json:"path"`
	Start    int      `json:"start"`
	Multi    bool     `json:"multi,omitempty"` // spread the failing tag/object over several lines
	Decoy    bool     `json:"decoy,omitempty"` // the same construct also stands earlier, where it is not executed
	Cache    bool     `json:"cache,omitempty"` // parse through ParseTemplateAndCache instead of ParseTemplateLocation
}

type c07Kind struct {
	src       string // the failing construct; %NL% marks places where a newline may be inserted
	parseTime bool
	strict    bool
	names     string // substring the message must contain ("" = any non-empty message)
	cause     string // sentinel | typeerror | ""
	needsLoop string // "none": must not be inside a loop wrapper
	stray     string // for unbalanced kinds: name of the block the stray tag belongs to
	altLine   string // text inside the construct whose line is an equally good answer
}

var c07Kinds = map[string]c07Kind{
	"object-syntax":        {src: "{{ a b%NL% c }}", parseTime: true},
	"object-syntax2":       {src: "{{ 1 |%NL% }}", parseTime: true},
	"tag-syntax":           {src: "{% assign%NL% x %}", parseTime: true},
	"block-syntax":         {src: "{% if a b%NL% c %}x{% endif %}", parseTime: true},
	"for-syntax":           {src: "{% for a b c %}x{% endfor %}", parseTime: true},
	"unknown-tag":          {src: "{% nosuchtag%NL% x %}", parseTime: true, names: "nosuchtag"},
	"unknown-filter":       {src: "{{ 1 |%NL% nosuchfilter }}", names: "nosuchfilter"},
	"unknown-filter-tag":   {src: "{% assign v = 1%NL% |%NL% nosuchfilter %}", names: "nosuchfilter"},
	"unknown-filter-if":    {src: "{% if 1 | nosuchfilter %}x{% endif %}", names: "nosuchfilter"},
	"filter-error":         {src: "{{ 1 |%NL% fail }}", names: "verif-sentinel", cause: "sentinel"},
	"filter-error-for":     {src: "{% for q in a | fail %}x{% endfor %}", names: "verif-sentinel", cause: "sentinel"},
	"division-by-zero":     {src: "{{ 1 | divided_by:%NL% 0 }}", names: "zero"},
	"type-error":           {src: "{{ \"a\" |%NL% plus: 1 }}", cause: "typeerror"},
	"type-error-date":      {src: "{{ \"not a date\" |%NL% date: \"%Y\" }}", cause: "typeerror"},
	"type-error-slice":     {src: "{{ \"abc\" | slice:%NL% \"x\" }}", cause: "typeerror"},
	"type-error-lazy1":     {src: "{{ \"hello wide world\" |%NL% truncate: \"abc\" }}", cause: "typeerror"},
	"type-error-lazy2":     {src: "{{ 1.5 | round:%NL% \"x\" }}", cause: "typeerror"},
	"type-error-lazy3":     {src: "{{ \"abc\" | slice: 0,%NL% \"x\" }}", cause: "typeerror"},
	"type-error-lazy4":     {src: "{% assign v = \"a b c\" | truncatewords: \"two\" %}", cause: "typeerror"},
	"type-error-nil-bound": {src: "{% for q in (1..undefined_v) %}x{% endfor %}", cause: "typeerror"},
	"type-error-nil-arg":   {src: "{{ \"hello wide world\" |%NL% truncate: undefined_v }}", cause: "typeerror"},
	"type-error-nil-round": {src: "{{ 1.5 | round:%NL% undefined_v }}", cause: "typeerror"},
	"type-error-assign":    {src: "{% assign v = \"x\" |%NL% times: 2 %}", cause: "typeerror"},
	"type-error-if":        {src: "{% if \"a\" | plus: 1 %}x{% endif %}", cause: "typeerror"},
	// a method of a bound struct that returns an error: the render fails with it
	"method-error":     {src: "{{ me.Fail |%NL% upcase }}", names: "verif-sentinel", cause: "sentinel"},
	"method-error-if":  {src: "{% if me.Fail %}x{% endif %}", names: "verif-sentinel", cause: "sentinel"},
	"field-func-error": {src: "{% assign v = me.F %}", names: "verif-sentinel", cause: "sentinel"},
	"offset-not-int":   {src: "{% for q in (1..2) offset: \"x\" %}x{% endfor %}"},
	// a clause of a block is a tag of its own: it is the innermost failing tag
	"filter-error-elsif": {src: "{% if false %}a%NL%{% elsif false %}b\n%AT%{% elsif 1 | fail %}c{% endif %}", names: "verif-sentinel", cause: "sentinel"},
	"type-error-elsif":   {src: "{% if false %}a\n%NL%%AT%{% elsif \"a\" | plus: 1 %}c{% else %}d{% endif %}", cause: "typeerror"},
	"type-error-when":    {src: "{% case 1 %}\n{% when 2 %}a%NL%\n%AT%{% when 3, (\"a\"..2) %}b{% endcase %}", cause: "typeerror"},
	"syntax-elsif":       {src: "{% if false %}a\n%NL%%AT%{% elsif a b c %}c{% endif %}", parseTime: true},
	"syntax-when":        {src: "{% case 1 %}\n%NL%%AT%{% when 1 2 %}c{% endcase %}", parseTime: true},
	"expand-tag-arg":     {src: "{% echo a%NL% {{ 1 | fail }} b %}", names: "verif-sentinel", cause: "sentinel", altLine: "{{ 1 | fail"},
	"expand-block-arg":   {src: "{% wrapx a%NL% {{ 1 | fail }} b %}x{% endwrapx %}", names: "verif-sentinel", cause: "sentinel", altLine: "{{ 1 | fail"},
	"located-filter-err": {src: "{% capture sn %}{% raw %}x {{ 1 | nosuchfilter }}{% endraw %}{% endcapture %}\n%AT%{{ sn |%NL% liquify }}", names: "nosuchfilter"},
	"strict-undefined":   {src: "{{ undefined_name }}", strict: true},
	"break-outside":      {src: "{% break %}", needsLoop: "none"},
	"continue-outside":   {src: "{% continue %}", needsLoop: "none"},
	"cycle-outside":      {src: "{% cycle 'a', 'b' %}", needsLoop: "none"},
	"limit-not-int":      {src: "{% for q in (1..2) limit: \"x\" %}x{% endfor %}"},
	"include-non-string": {src: "{% include 10 %}"},
	"stray-end":          {src: "{% endunless %}", parseTime: true, stray: "unless"},
	"stray-else":         {src: "{% elsif true %}", parseTime: true, stray: "if"},
	"stray-when":         {src: "{% when 1 %}", parseTime: true, stray: "case"},
	"unterminated":       {src: "{% unless false %}u", parseTime: true, stray: "open-unless"},
	"unterminated-raw":   {src: "{% raw %}r", parseTime: true, stray: "open"},
}

var c07Wrap = map[string][2]string{
	"if":       {"{% if true %}", "{% endif %}"},
	"else":     {"{% if false %}no{% else %}", "{% endif %}"},
	"unless":   {"{% unless false %}", "{% endunless %}"},
	"for":      {"{% for i in (1..1) %}", "{% endfor %}"},
	"tablerow": {"{% tablerow j in (1..1) %}", "{% endtablerow %}"},
	"case":     {"{% case 1 %}{% when 1 %}", "{% endcase %}"},
	"capture":  {"{% capture cc %}", "{% endcapture %}"},
	"multi":    {"{% if\n  true\n%}", "{% endif %}"},
}

// build returns the source, the byte offset at which the failing token starts, and whether the case is well-formed.
func (c *c07Case) build() (src string, failAt int, ok bool) {
	k, found := c07Kinds[c.Kind]
	if !found {
		return "", 0, false
	}
	gi := 0
	gap := func() string {
		n := 0
		if len(c.Gaps) > 0 {
			n = c.Gaps[gi%len(c.Gaps)]
			gi++
		}
		return "t" + strings.Repeat("\n", n) + " "
	}
	var sb strings.Builder
	sb.WriteString(gap())
	if c.Decoy && !k.parseTime {
		// a textually identical tag or object that is never executed must not attract the error
		sb.WriteString("{% if false %}" + strings.NewReplacer("%NL%", "", "%AT%", "").Replace(k.src) + "{% endif %}")
		sb.WriteString(gap())
	}
	for _, w := range c.Wrappers {
		ws, found := c07Wrap[w]
		if !found {
			return "", 0, false
		}
		if (w == "for" || w == "tablerow") && k.needsLoop == "none" {
			return "", 0, false
		}
		sb.WriteString(ws[0])
		sb.WriteString(gap())
	}
	inner := ""
	if n := len(c.Wrappers); n > 0 {
		inner = c.Wrappers[n-1]
		if inner == "else" || inner == "multi" {
			inner = "if"
		}
	}
	if k.stray != "" && k.stray != "open" && inner == strings.TrimPrefix(k.stray, "open-") {
		return "", 0, false // the "stray" tag would belong to the innermost wrapper
	}
	failAt = sb.Len()
	body := k.src
	if c.Multi {
		body = strings.ReplaceAll(body, "%NL%", "\n\n ")
	} else {
		body = strings.ReplaceAll(body, "%NL%", "")
	}
	// %AT% marks the tag inside the construct that fails (a clause of a block, say), when that is not its first
	if at := strings.Index(body, "%AT%"); at >= 0 {
		failAt += at
		body = strings.Replace(body, "%AT%", "", 1)
	}
	sb.WriteString(body)
	after := gap()
	sb.WriteString(after)
	for i := len(c.Wrappers) - 1; i >= 0; i-- {
		if i == len(c.Wrappers)-1 && c.Kind == "unterminated" {
			// the unclosed block makes the innermost wrapper's end tag the first token that is rejected
			failAt = sb.Len()
		}
		sb.WriteString(c07Wrap[c.Wrappers[i]][1])
		sb.WriteString(gap())
	}
	return sb.String(), failAt, true
}

func reaches(err error, pred func(error) bool) bool {
	for i := 0; err != nil && i < 20; i++ {
		if pred(err) {
			return true
		}
		switch e := err.(type) {
		case expressions.FilterError:
			err = e.Err
			continue
		case *expressions.FilterError:
			err = e.Err
			continue
		}
		if c, ok := err.(interface{ Cause() error }); ok && c.Cause() != nil {
			err = c.Cause()
			continue
		}
		err = errors.Unwrap(err)
	}
	return false
}

// a bound struct with a method, and a function-valued field, that fail
type c07Failing struct {
	F func() (string, error)
}

func (c07Failing) Fail() (string, error) { return "", errSentinel }

func c07Binds() map[string]any {
	return map[string]any{"a": 1, "me": c07Failing{F: func() (string, error) { return "", errSentinel }}}
}

var c07Locate = hx.Define("c07.locate", func(c *c07Case, s *hx.Sub) *hx.Violation {
	src, failAt, ok := c.build()
	if !ok {
		s.Exclude()
		return nil
	}
	k := c07Kinds[c.Kind]
	eng := newEngine(nil)
	// client code using the documented extension points: a tag that expands {{ }} in its argument, and a
	// filter whose own error is a located error from another template
	eng.RegisterTag("echo", func(ctx render.Context) (string, error) { return ctx.ExpandTagArg() })
	eng.RegisterBlock("wrapx", func(ctx render.Context) (string, error) {
		arg, err := ctx.ExpandTagArg()
		if err != nil {
			return "", err
		}
		inner, err := ctx.InnerString()
		return arg + inner, err
	})
	eng.RegisterFilter("liquify", func(v string) (any, error) {
		out, lerr := newEngine(nil).ParseTemplateLocation([]byte(v), "snippet.liquid", 40)
		if lerr != nil {
			return nil, lerr
		}
		res, rerr := out.RenderString(nil)
		if rerr != nil {
			return nil, rerr
		}
		return res, nil
	})
	if k.strict {
		eng.StrictVariables()
	}
	var out []byte
	var tpl *liquid.Template
	var perr, rerr liquid.SourceError
	if pi := hx.Guard(func() {
		if c.Cache {
			tpl, perr = eng.ParseTemplateAndCache([]byte(src), c.Path, c.Start)
		} else {
			tpl, perr = eng.ParseTemplateLocation([]byte(src), c.Path, c.Start)
		}
		if perr == nil {
			out, rerr = tpl.Render(c07Binds())
		}
	}); pi != nil {
		return hx.V("panic@"+pi.Site, "%q: %v", src, pi)
	}
	desc := fmt.Sprintf("%q (kind %s, depth %d, path %q, starting line %d)", src, c.Kind, len(c.Wrappers), c.Path, c.Start)
	err := perr
	if err == nil {
		err = rerr
	}
	if err == nil {
		return hx.V("c07:no-error:"+c.Kind, "%s rendered %q without an error", desc, out)
	}
	if k.parseTime && perr == nil {
		s.Class("reported-at-render-time") // allowed: the statement does not say when
	}
	if rerr != nil && len(out) != 0 {
		return hx.V("c07:output-with-error", "%s returned output %q together with the error %v", desc, out, rerr)
	}
	if rerr != nil {
		// "Render/RenderString never return output together with an error": the string entry points too
		var outS, outE string
		var errS, errE liquid.SourceError
		if pi := hx.Guard(func() {
			outS, errS = tpl.RenderString(c07Binds())
			outE, errE = eng.ParseAndRenderString(src, c07Binds())
		}); pi != nil {
			return hx.V("panic@"+pi.Site, "%q: %v", src, pi)
		}
		if errS == nil || outS != "" {
			return hx.V("c07:output-with-error", "%s: RenderString returned output %q together with the error %v", desc, outS, errS)
		}
		if c.Path == "" && c.Start <= 1 && !c.Cache && (errE == nil || outE != "") {
			return hx.V("c07:output-with-error", "%s: ParseAndRenderString returned output %q together with the error %v", desc, outE, errE)
		}
	}
	wantLine := c.Start + strings.Count(src[:failAt], "\n")
	if k.altLine != "" {
		// the failing object sits inside a tag's argument: the tag's line and the object's own line are both "where it begins"
		if at := strings.Index(src[failAt:], k.altLine); at >= 0 && err.LineNumber() == c.Start+strings.Count(src[:failAt+at], "\n") {
			wantLine = err.LineNumber()
		}
	}
	if err.LineNumber() != wantLine {
		return hx.V("c07:line:"+map[bool]string{true: "parse", false: "render"}[perr != nil], "%s: the error %q reports line %d; the failing tag or object begins on line %d", desc, err.Error(), err.LineNumber(), wantLine)
	}
	if err.Path() != c.Path {
		return hx.V("c07:path", "%s: the error reports path %q", desc, err.Path())
	}
	msg := err.Error()
	if msg == "" || (k.names != "" && !strings.Contains(msg, k.names)) {
		return hx.V("c07:message:"+c.Kind, "%s: the message %q does not name the problem (%q)", desc, msg, k.names)
	}
	switch k.cause {
	case "sentinel":
		if err.Cause() == nil || !reaches(err.Cause(), func(e error) bool { return e == errSentinel }) {
			return hx.V("c07:cause:"+c.Kind, "%s: Cause() = %v does not lead to the filter's own error", desc, err.Cause())
		}
	case "typeerror":
		// "a conversion error ... is what Cause returns": the TypeError itself, not a wrapper around it
		if _, ok := err.Cause().(values.TypeError); !ok {
			return hx.V("c07:cause:"+c.Kind, "%s: Cause() = %T (%v) is not the conversion error", desc, err.Cause(), err.Cause())
		}
	}
	if len(c.Wrappers) >= 1 && wantLine > c.Start {
		s.NTKey(fmt.Sprint(c.Kind, c.Wrappers, c.Gaps, c.Path, c.Start, c.Multi, c.Decoy, c.Cache))
	}
	if s.WantSample() {
		s.Sample(map[string]any{"template": src, "error": msg, "line": err.LineNumber(), "path": err.Path()})
	}
	return nil
})

func TestC07(t *testing.T) {
	col := hx.NewCollector("C07")
	defer col.Finish()
	col.Corpus()
	env := col.Env

	kinds := make([]string, 0, len(c07Kinds))
	for k := range c07Kinds {
		kinds = append(kinds, k)
	}
	for i := 1; i < len(kinds); i++ {
		for j := i; j > 0 && kinds[j] < kinds[j-1]; j-- {
			kinds[j], kinds[j-1] = kinds[j-1], kinds[j]
		}
	}
	wrappers := []string{"if", "else", "unless", "for", "tablerow", "case", "capture", "multi"}
	loc := c07Locate.On(col, fmt.Sprintf("product + rapid: each of %d kinds of failing construct (syntax errors in objects, tags and block headers, unknown tag, unknown filter in an object / tag / block header, a filter returning its own error, division by zero, conversion error, strict-mode undefined variable, break/continue/cycle outside a loop, non-integer limit, non-string include, stray end/clause tags, unterminated block and raw) placed inside 0..6 entered blocks (if, else branch, unless, for, tablerow, case/when, capture, a multi-line tag) with 0..3 newlines at every gap and optionally spread over several lines itself, parsed with path \"\" / \"dir/t.html\" and starting line 0 / 1 / 37. Oracle: the error is non-nil, LineNumber() = starting line + newlines before the failing token (for an unclosed block: the first token the reference acceptor rejects, or the opener at end of input), Path() = the given path, the message names the problem, Cause() leads to the filter's own / the conversion error, no output with an error. Non-trivial: depth >= 1 and the failing token is not on the first line; distinct by (kind, wrappers, layout, path?, start, multi-line)", len(c07Kinds)), false)
	idx := 0
	// the full product of kind x depth x path x start with a few fixed layouts
	for _, kind := range kinds {
		for depth := 0; depth <= 6; depth++ {
			for _, path := range []string{"", "dir/t.html"} {
				for _, start := range []int{0, 1, 37} {
					for layout := 0; layout < 5; layout++ {
						idx++
						if !env.Mine(idx) {
							continue
						}
						ws := make([]string, depth)
						for i := range ws {
							ws[i] = wrappers[(i*3+layout+idx)%len(wrappers)]
						}
						gaps := [][]int{{0}, {1}, {0, 2, 1}, {3, 0}, {1, 1, 2}}[layout]
						loc.Run(&c07Case{Kind: kind, Wrappers: ws, Gaps: gaps, Path: path, Start: start, Multi: layout%2 == 1, Decoy: layout >= 3})
					}
				}
			}
		}
	}
	col.Rapid(loc.Sub, env.PerShard(env.Pick(200000, 2000000)), func(t *rapid.T) {
		c := &c07Case{
			Kind:     rapid.SampledFrom(kinds).Draw(t, "kind"),
			Wrappers: rapid.SliceOfN(rapid.SampledFrom(wrappers), 0, 6).Draw(t, "wrappers"),
			Gaps:     rapid.SliceOfN(rapid.IntRange(0, 3), 1, 8).Draw(t, "gaps"),
			Path:     rapid.SampledFrom([]string{"", "dir/t.html", "x.liquid", "./a.html", "a//b.html", "a/x/../b.html", "/abs/t.html", "dir/"}).Draw(t, "path"),
			Cache:    rapid.IntRange(0, 2).Draw(t, "cache") == 0,
			Start:    rapid.SampledFrom([]int{0, 1, 37, 1000}).Draw(t, "start"),
			Multi:    rapid.Bool().Draw(t, "multi"),
			Decoy:    rapid.Bool().Draw(t, "decoy"),
		}
		if v := loc.Run(c); v != nil {
			t.Fatalf("%s", v.Message)
		}
	})
}
