package props

import (
	"fmt"
	"math"
	"strings"
	"testing"

	yaml "gopkg.in/yaml.v2"
	"pgregory.net/rapid"

	"verifharness/hx"
)

// ---- C08: literals, variable/property/index lookup, filter pipelines, spacing ----

// (1) exhaustive index grid

type c08GridCase struct {
	Len   int    `json:"len"`
	Index string `json:"index"` // literal spelling, or a universe-ish name handled below
	Rep   string `json:"rep"`
	AsVar bool   `json:"asvar,omitempty"`
	IxRep string `json:"ixrep,omitempty"` // with AsVar: the Go integer type of the variable (int8, int64, uint16, ...)
}

var c08Grid = hx.Define("c08.index-grid", func(c *c08GridCase, s *hx.Sub) *hx.Violation {
	arr := hx.SArr()
	for i := 0; i < c.Len; i++ {
		arr.E = append(arr.E, hx.SInt(int64(10+i)))
	}
	arr.R = c.Rep
	binds := map[string]any{"a": arr.Realise()}
	ix := c.Index
	want, specified := "", true
	var n int
	if _, err := fmt.Sscanf(c.Index, "%d", &n); err == nil && !strings.Contains(c.Index, ".") {
		j := n
		if j < 0 {
			j += c.Len
		}
		if j >= 0 && j < c.Len {
			want = fmt.Sprint(10 + j)
		}
		if c.AsVar {
			binds["i"], ix = n, "i"
			if c.IxRep != "" {
				if !hx.IntFits(int64(n), c.IxRep) {
					s.Exclude()
					return nil
				}
				sp := hx.SInt(int64(n))
				sp.R = c.IxRep
				binds["i"] = sp.Realise()
			}
		}
	} else {
		switch c.Index {
		case "1.5":
			specified = false // a float index is not described by the statement
		case "nil", "true", `"x"`, "a", "undefined_name":
		case "maxuint64", "maxuint64-1", "maxuint", "u2^63", "minint64", "uintptr-max":
			// integers far out of range, bound as variables of the widest types (a "not found" sentinel, say)
			binds["i"], ix = map[string]any{"maxuint64": uint64(math.MaxUint64), "maxuint64-1": uint64(math.MaxUint64 - 1), "maxuint": uint(math.MaxUint),
				"u2^63": uint64(1) << 63, "minint64": int64(math.MinInt64), "uintptr-max": ^uintptr(0)}[c.Index], "i"
		}
	}
	src := "{{ a[" + ix + "] }}"
	o := hx.Render(src, binds)
	if o.Panic != nil {
		return hx.V("panic@"+o.Panic.Site, "%s (len %d, %s): %v", src, c.Len, c.Rep, o.Panic)
	}
	if o.Err != nil {
		return hx.V("c08:index-error", "%s (len %d, %s) failed: %v; a step that does not apply yields nil", src, c.Len, c.Rep, o.Err)
	}
	if !specified {
		s.Unspec()
		return nil
	}
	if o.Out != want {
		return hx.V("c08:index", "%s on an array of %d elements 10.. (%s) rendered %q, expected %q (negative indices count from the end; out-of-range and non-numeric indices yield nil)", src, c.Len, c.Rep, o.Out, want)
	}
	s.NT()
	if s.WantSample() {
		s.Sample(map[string]any{"template": src, "len": c.Len, "rep": c.Rep, "output": o.Out})
	}
	return nil
})

// (2) lookup paths and expression trees against the model (also in strict mode)

type c08ExprCase struct {
	E      *hx.E       `json:"e"`
	Binds  hx.Bindings `json:"binds"`
	Sp     []int       `json:"sp,omitempty"`
	Strict bool        `json:"strict,omitempty"`
}

var c08Expr = hx.Define("c08.expr", func(c *c08ExprCase, s *hx.Sub) *hx.Violation {
	p := &progCase{P: &hx.Program{Nodes: []*hx.N{hx.Obj(c.E)}, Binds: c.Binds}, Sp: c.Sp, Strict: c.Strict}
	v, specified := modelVsImpl(p, s, "c08")
	if v != nil {
		return v
	}
	if c.Strict {
		// strict mode changes nothing but the treatment of a final nil
		src := hx.SourceSp(p.P.Nodes, &hx.Spacer{Seq: c.Sp})
		lax := hx.RenderWith(newEngine(nil), src, c.Binds.Realise())
		eng := newEngine(nil)
		eng.StrictVariables()
		str := hx.RenderWith(eng, src, c.Binds.Realise())
		if lax.OK() && str.OK() && lax.Out != str.Out {
			return hx.V("c08:strict-differs", "%s renders %q, in strict-variables mode %q", src, lax.Out, str.Out)
		}
		if lax.OK() && str.Failed() {
			// strict mode may only object to a final value that is nil: ask the implementation itself
			probe := hx.SourceSp([]*hx.N{hx.Assign("v_", c.E)}, nil) + "{% if v_ == nil %}NIL{% else %}VALUE{% endif %}"
			pr := hx.RenderWith(newEngine(nil), probe, c.Binds.Realise())
			if pr.OK() && pr.Out == "VALUE" {
				return hx.V("c08:strict-rejects-value", "%s fails in strict-variables mode (%v) although its final value is not nil (it renders %q)", src, str.Err, lax.Out)
			}
		}
		if lax.Failed() && !str.Failed() {
			return hx.V("c08:strict-differs", "%s fails (%v) but succeeds in strict-variables mode", src, lax.Err)
		}
	}
	if specified {
		depth := exprDepth(c.E)
		if depth >= 2 {
			s.NTKey(c.E.String() + bindingsString(c.Binds) + fmt.Sprint(c.Strict))
		}
		s.Class(fmt.Sprintf("depth-%d", depth))
	}
	if s.WantSample() {
		s.Sample(map[string]any{"template": hx.SourceSp(p.P.Nodes, &hx.Spacer{Seq: c.Sp}), "strict": c.Strict, "bindings": bindingsString(c.Binds)})
	}
	return nil
})

func exprDepth(e *hx.E) int {
	d := 0
	for _, a := range e.A {
		if x := exprDepth(a); x > d {
			d = x
		}
	}
	if e.T == "lit" || e.T == "var" {
		return 0
	}
	return d + 1
}

// (3) pipeline = assign decomposition, for every standard filter

type fsig struct {
	name string
	in   string   // S N A X T(time)
	args []string // kinds, "?" suffix = optional
	out  string
}

var c08Filters = []fsig{
	{"append", "S", []string{"S"}, "S"}, {"prepend", "S", []string{"S"}, "S"}, {"upcase", "S", nil, "S"}, {"downcase", "S", nil, "S"},
	{"capitalize", "S", nil, "S"}, {"strip", "S", nil, "S"}, {"lstrip", "S", nil, "S"}, {"rstrip", "S", nil, "S"},
	{"replace", "S", []string{"S", "S"}, "S"}, {"replace_first", "S", []string{"S", "S"}, "S"}, {"remove", "S", []string{"S"}, "S"}, {"remove_first", "S", []string{"S"}, "S"},
	{"escape", "S", nil, "S"}, {"escape_once", "S", nil, "S"}, {"url_encode", "S", nil, "S"}, {"url_decode", "S", nil, "S"},
	{"newline_to_br", "S", nil, "S"}, {"strip_html", "S", nil, "S"}, {"strip_newlines", "S", nil, "S"},
	{"truncate", "S", []string{"N?", "S?"}, "S"}, {"truncatewords", "S", []string{"N?", "S?"}, "S"}, {"slice", "S", []string{"N", "N?"}, "S"},
	{"split", "S", []string{"S"}, "A"}, {"size", "S", nil, "N"}, {"size", "A", nil, "N"},
	{"reverse", "A", nil, "A"}, {"sort", "A", nil, "A"}, {"sort_natural", "A", nil, "A"}, {"uniq", "A", nil, "A"}, {"compact", "A", nil, "A"},
	{"concat", "A", []string{"A"}, "A"}, {"map", "A", []string{"S"}, "A"}, {"join", "A", []string{"S?"}, "S"}, {"first", "A", nil, "X"}, {"last", "A", nil, "X"},
	{"plus", "N", []string{"N"}, "N"}, {"minus", "N", []string{"N"}, "N"}, {"times", "N", []string{"N"}, "N"}, {"divided_by", "N", []string{"N"}, "N"}, {"modulo", "N", []string{"N"}, "N"},
	{"abs", "N", nil, "N"}, {"ceil", "N", nil, "N"}, {"floor", "N", nil, "N"}, {"round", "N", []string{"N?"}, "N"},
	{"default", "X", []string{"X"}, "X"}, {"json", "X", nil, "S"}, {"inspect", "X", nil, "S"}, {"type", "X", nil, "S"}, {"date", "T", []string{"S?"}, "S"},
}

type c08PipeCase struct {
	Recv  *hx.E       `json:"recv"`
	Steps []*hx.E     `json:"steps"` // each is a filter node whose A[0] is ignored
	Binds hx.Bindings `json:"binds"`
	Sp    []int       `json:"sp,omitempty"`
}

var c08Pipe = hx.Define("c08.pipeline", func(c *c08PipeCase, s *hx.Sub) *hx.Violation {
	// pipeline form
	e := c.Recv
	for _, st := range c.Steps {
		e = hx.Flt(e, st.N, st.A[1:]...)
	}
	pipe := hx.SourceSp([]*hx.N{hx.Obj(e)}, &hx.Spacer{Seq: c.Sp})
	// one step at a time through assign
	var nodes []*hx.N
	prev := c.Recv
	for i, st := range c.Steps {
		name := fmt.Sprintf("t%d_", i+1)
		nodes = append(nodes, hx.Assign(name, hx.Flt(prev, st.N, st.A[1:]...)))
		prev = hx.Var(name)
	}
	nodes = append(nodes, hx.Obj(prev))
	steps := hx.Source(nodes)
	o1 := hx.RenderWith(newEngine(nil), pipe, c.Binds.Realise())
	o2 := hx.RenderWith(newEngine(nil), steps, c.Binds.Realise())
	for _, o := range []hx.Outcome{o1, o2} {
		if o.Panic != nil {
			return hx.V("panic@"+o.Panic.Site, "%s: %v", pipe, o.Panic)
		}
	}
	if !o1.Same(o2) {
		return hx.V("c08:pipeline-differs", "%s renders %v\n   but one step at a time %s renders %v", pipe, o1, steps, o2)
	}
	for _, st := range c.Steps {
		s.Class("filter:" + st.N)
	}
	if o1.OK() && o1.Out != "" && len(c.Steps) >= 2 {
		s.NTKey(pipe + bindingsString(c.Binds))
	}
	if o1.Failed() {
		s.Class("both-fail")
	}
	if s.WantSample() {
		s.Sample(map[string]any{"pipeline": pipe, "decomposed": steps, "output": o1.String()})
	}
	return nil
})

// (4) whitespace never changes the meaning

type c08SpaceCase struct {
	P   *hx.Program `json:"p"`
	Sp1 []int       `json:"sp1,omitempty"`
	Sp2 []int       `json:"sp2,omitempty"`
}

var c08Space = hx.Define("c08.spacing", func(c *c08SpaceCase, s *hx.Sub) *hx.Violation {
	a := hx.SourceSp(c.P.Nodes, &hx.Spacer{Seq: c.Sp1})
	b := hx.SourceSp(c.P.Nodes, &hx.Spacer{Seq: c.Sp2})
	oa := hx.RenderWith(newEngine(nil), a, c.P.Binds.Realise())
	ob := hx.RenderWith(newEngine(nil), b, c.P.Binds.Realise())
	for _, o := range []hx.Outcome{oa, ob} {
		if o.Panic != nil {
			return hx.V("panic@"+o.Panic.Site, "%q: %v", a, o.Panic)
		}
	}
	if !oa.Same(ob) {
		return hx.V("c08:spacing-changes-meaning", "%q renders %v\n   but with different whitespace between the parts %q renders %v", a, oa, b, ob)
	}
	if a != b && oa.OK() {
		s.NTKey(a + "\x00" + b)
		if strings.ContainsAny(a+b, "\n") {
			s.Class("with-newline")
		}
	}
	if s.WantSample() {
		s.Sample(map[string]any{"a": a, "b": b, "output": oa.String()})
	}
	return nil
})

// (4b) maps and keys of named string types: a.b and a["b"] read the same entry

type c08NamedCase struct {
	Expr string `json:"expr"`
	Want string `json:"want"`
}

var c08Named = hx.Define("c08.named-key-types", func(c *c08NamedCase, s *hx.Sub) *hx.Violation {
	b := map[string]any{"nk": hx.NamedKeyMap(map[string]any{"b": 5, "c": map[string]any{"d": 8}}), "plain": map[string]any{"b": 6}, "k": "b", "lang": hx.NamedString("b"),
		"arr": []any{hx.NamedKeyMap(map[string]any{"b": 1}), hx.NamedKeyMap(map[string]any{"b": 2})}}
	src := "{{ " + c.Expr + " }}"
	o := hx.Render(src, b)
	if o.Panic != nil {
		return hx.V("panic@"+o.Panic.Site, "%s: %v", src, o.Panic)
	}
	if !o.OK() || o.Out != c.Want {
		return hx.V("c08:named-key", "%s with nk a map[K]any (type K string) holding b: 5, lang a value of a named string type spelling b, k the string b: rendered %v, expected %q", src, o, c.Want)
	}
	s.NT()
	return nil
})

// (4b) a key of another kind, or one that only becomes a key by losing its value in a
// conversion to the map's key type, is a missing key; a number is a key by its value

var c08KeyKinds = hx.Define("c08.key-kinds", func(c *c08NamedCase, s *hx.Sub) *hx.Violation {
	b := map[string]any{
		"sm": map[string]any{"A": "letter", "1": "digit", "true": "t"}, "ss": map[string]string{"A": "letter"},
		"im": map[int]any{1: "one", 65: "sixtyfive"}, "u8": map[uint8]any{1: "one"}, "i8": map[int8]string{-1: "m1"},
		"fm": map[float64]any{1.5: "x"}, "am": map[any]any{"A": "letter", 1: "one"}, "nam": map[any]any{hx.NamedString("b"): 5, "c": 6},
		"ms": yaml.MapSlice{{Key: "size", Value: nil}, {Key: "b", Value: 1}}, "pm": map[string]any{"size": nil, "b": 1},
		"i8v": int8(1), "u64v": uint64(1), "f19": 1.9, "i65": 65, "u257": uint16(257), "neg": -255, "t": true,
	}
	src := "{{ " + c.Expr + " }}"
	o := hx.Render(src, b)
	if o.Panic != nil {
		return hx.V("panic@"+o.Panic.Site, "%s: %v", src, o.Panic)
	}
	if !o.OK() || o.Out != c.Want {
		return hx.V("c08:key-kind:"+strings.SplitN(strings.SplitN(c.Expr, "[", 2)[0], " ", 2)[0], "%s with sm = {A: letter, \"1\": digit, \"true\": t} (string keys; ss likewise with string values), im = {1: one, 65: sixtyfive} (int keys), u8 = {1: one} (uint8 keys), i8 = {-1: m1} (int8 keys), fm = {1.5: x} (float keys), am = {A: letter, 1: one} (keys of any type), ms/pm an ordered/a plain map {size: nil, b: 1}: rendered %v, expected %q (a missing key yields nil; a value of one kind never equals one of another; integers of every width are keys by value)", src, o, c.Want)
	}
	s.NT()
	if s.WantSample() {
		s.Sample(map[string]any{"template": src, "output": o.Out})
	}
	return nil
})

// (5) unknown filter / too many arguments are errors

type c08ArityCase struct {
	Filter string `json:"filter"`
	NArgs  int    `json:"nargs"`
	Recv   string `json:"recv"`
	Arg    string `json:"arg,omitempty"` // spelling of every argument ("" = 1, 2, 3, ...)
}

var c08Arity = hx.Define("c08.unknown-or-excess", func(c *c08ArityCase, s *hx.Sub) *hx.Violation {
	args := []string{}
	for i := 0; i < c.NArgs; i++ {
		if c.Arg != "" {
			args = append(args, c.Arg)
		} else {
			args = append(args, fmt.Sprint(i+1))
		}
	}
	src := "{{ " + c.Recv + " | " + c.Filter
	if len(args) > 0 {
		src += ": " + strings.Join(args, ", ")
	}
	src += " }}"
	o := hx.Render(src, map[string]any{"x": "abc", "a": []any{1, 2}, "n": 3})
	if o.Panic != nil {
		return hx.V("panic@"+o.Panic.Site, "%s: %v", src, o.Panic)
	}
	if o.Err == nil {
		return hx.V("c08:no-error", "%s rendered %q; an unknown filter, or more arguments than the filter takes, is an error", src, o.Out)
	}
	s.NT()
	if s.WantSample() {
		s.Sample(map[string]any{"template": src, "error": o.Err.Error()})
	}
	return nil
})

// (6) literals denote themselves

type c08LitCase struct {
	Lit  string `json:"lit"`
	Want string `json:"want"`
}

var c08Literal = hx.Define("c08.literals", func(c *c08LitCase, s *hx.Sub) *hx.Violation {
	// the literal is printed, compared with itself, passed through assign and used as a filter argument
	src := "{{ " + c.Lit + " }}|{% assign v = " + c.Lit + " %}{{ v }}|{{ v == " + c.Lit + " }}|{{ '' | append: " + c.Lit + " }}"
	o := hx.Render(src, nil)
	if o.Panic != nil {
		return hx.V("panic@"+o.Panic.Site, "%s: %v", src, o.Panic)
	}
	want := c.Want + "|" + c.Want + "|true|" + c.Want
	if !o.OK() || o.Out != want {
		return hx.V("c08:literal", "%s rendered %v, expected %q: a literal denotes itself", src, o, want)
	}
	s.NT()
	if s.WantSample() {
		s.Sample(map[string]any{"template": src, "output": o.Out})
	}
	return nil
})

func TestC08(t *testing.T) {
	col := hx.NewCollector("C08")
	defer col.Finish()
	col.Corpus()
	env := col.Env

	grid := c08Grid.On(col, "exhaustive: array length 0..5 x index in -7..7 (as literal and through a variable of every integer width) and the non-integer indices \"x\", 1.5, nil, true, an array, an undefined name, x {[]any, []int, fixed array}; oracle: element counted from the end for negative indices, nil (empty output) when out of range or non-numeric, never an error; float index unspecified. Distinct by construction", true)
	idx := 0
	for l := 0; l <= 5; l++ {
		for _, rep := range []string{"", "typed", "array"} {
			for i := -7; i <= 7; i++ {
				for _, asVar := range []bool{false, true} {
					idx++
					if env.Mine(idx) {
						grid.Run(&c08GridCase{Len: l, Index: fmt.Sprint(i), Rep: rep, AsVar: asVar})
						if asVar && rep == "" {
							// the index variable in every other integer width that holds it
							for _, ir := range hx.IntReps {
								if ir != "" {
									grid.Run(&c08GridCase{Len: l, Index: fmt.Sprint(i), Rep: rep, AsVar: true, IxRep: ir})
								}
							}
						}
					}
				}
			}
			for _, ix := range []string{`"x"`, "1.5", "nil", "true", "a", "undefined_name", "maxuint64", "maxuint64-1", "maxuint", "u2^63", "minint64", "uintptr-max"} {
				idx++
				if env.Mine(idx) {
					grid.Run(&c08GridCase{Len: l, Index: ix, Rep: rep})
				}
			}
		}
	}

	expr := c08Expr.On(col, "rapid: (a) lookup paths of 1..5 steps (dot and bracket spelling, first/last/size, valid/negative/out-of-range/non-integer indices, steps that go astray so that nil appears mid-path) over generated nested bindings of depth <= 3 with and without a size key; (b) expression trees up to depth 5 over literals, variables, lookups, ranges and filters; printed with random spacing and quoting; rendered in normal and strict-variables mode. Oracle: reference model (nil prints as the empty string; strict mode: error iff the final value is nil, otherwise the same output). Non-trivial: specified and depth >= 2; distinct by expression+bindings+mode", false)
	prof := hx.FullProfile()
	col.Rapid(expr.Sub, env.PerShard(env.Pick(200000, 2000000)), func(t *rapid.T) {
		binds := hx.GenBindings(t, prof)
		c := &c08ExprCase{Binds: binds, Sp: hx.GenSpacing(t, "sp"), Strict: rapid.IntRange(0, 2).Draw(t, "strict") == 0}
		if rapid.Bool().Draw(t, "path") {
			h := hx.GenNested(t, 3)
			if h.K != "map" && h.K != "arr" {
				h = hx.SMap("a", h, "list", hx.SArr(h, hx.SInt(1)))
			}
			binds["h"] = h
			c.E = hx.GenPath(t, "h", h, 5)
		} else {
			c.E = hx.GenPrintable(t, prof, rapid.IntRange(1, 4).Draw(t, "depth"))
		}
		if v := expr.Run(c); v != nil {
			t.Fatalf("%s", v.Message)
		}
	})

	si, err := hx.ReadSrcInfo()
	if err != nil {
		t.Fatal(err)
	}
	known := map[string]bool{}
	for _, f := range c08Filters {
		known[f.name] = true
	}
	pipe := c08Pipe.On(col, fmt.Sprintf("rapid: chains of 1..4 standard filters (all %d filters of the repository; kind- and arity-aware so that most chains succeed) with argument expressions that are literals or variables; metamorphic oracle: {{ x | f: a | g: b }} renders exactly as {%% assign t1 = x | f: a %%}{%% assign t2 = t1 | g: b %%}{{ t2 }} (both fail or equal bytes). Non-trivial: >= 2 filters, both succeed with non-empty output; distinct by pipeline+bindings", len(si.Filters)), false)
	for _, f := range si.Filters {
		if !known[f] {
			pipe.Sub.Note("filter %q is not in the harness's arity table; it is applied without arguments to a string receiver", f)
			c08Filters = append(c08Filters, fsig{f, "S", nil, "X"})
		}
	}
	col.Rapid(pipe.Sub, env.PerShard(env.Pick(200000, 2000000)), func(t *rapid.T) {
		c := genPipe(t)
		if v := pipe.Run(c); v != nil {
			t.Fatalf("%s", v.Message)
		}
	})

	space := c08Space.On(col, "rapid: generated programs (objects, assign, if/unless/case, for/tablerow headers with modifiers, cycle, capture) printed under two independent whitespace policies (none where the lexer allows it, spaces, tabs, newlines, CR-LF at every lexical boundary); metamorphic oracle: both spellings render identically. Non-trivial: the two spellings differ and render successfully; distinct by the pair of sources", false)
	prof3 := hx.FullProfile()
	prof3.Tablerow = true
	col.Rapid(space.Sub, env.PerShard(env.Pick(150000, 1500000)), func(t *rapid.T) {
		c := &c08SpaceCase{P: hx.GenProgram(t, prof3), Sp1: hx.GenSpacing(t, "sp1"), Sp2: rapid.SliceOfN(rapid.IntRange(0, 5), 1, 12).Draw(t, "sp2")}
		if v := space.Run(c); v != nil {
			t.Fatalf("%s", v.Message)
		}
	})

	lit := c08Literal.On(col, "exhaustive over a list of literal spellings: integers (0, negative, leading zeros, the int64 extremes), floats d.d, true/false, strings in both quote styles containing the other quote, spaces, Unicode, pipes, colons, brackets, percent signs and (single) braces; oracle: printed, assigned-then-printed, equal to itself, and appended to the empty string, the literal denotes itself. Distinct by construction", true)
	lits := []c08LitCase{{"0", "0"}, {"7", "7"}, {"-7", "-7"}, {"007", "7"}, {"9223372036854775807", "9223372036854775807"}, {"-9223372036854775808", "-9223372036854775808"},
		{"1.5", "1.5"}, {"-0.25", "-0.25"}, {"2.0", "2"}, {"10.50", "10.5"}, {"true", "true"}, {"false", "false"},
		{`"abc"`, "abc"}, {`'abc'`, "abc"}, {`"it's"`, "it's"}, {`'say "hi"'`, `say "hi"`}, {`" padded "`, " padded "}, {`"é😀"`, "é😀"}, {`"a | b: c, d"`, "a | b: c, d"},
		{`"x[0].y"`, "x[0].y"}, {`"100%"`, "100%"}, {`"{ brace }"`, "{ brace }"}, {`"and or contains nil true"`, "and or contains nil true"}, {`""`, ""}, {`''`, ""}, {`"(1..3)"`, "(1..3)"}, {`"line1\nline2"`, `line1\nline2`}} // no escapes in Liquid strings: backslash-n stays two characters
	// decimal whatever zeros lead: every n below 130 and a few beyond, written with one and two leading zeros, negative too
	for _, n := range append(func() (r []int) {
		for i := 0; i < 130; i++ {
			r = append(r, i)
		}
		return
	}(), 255, 511, 644, 755, 777, 1000, 7777) {
		lits = append(lits, c08LitCase{fmt.Sprintf("0%d", n), fmt.Sprint(n)}, c08LitCase{fmt.Sprintf("00%d", n), fmt.Sprint(n)})
		if n > 0 {
			lits = append(lits, c08LitCase{fmt.Sprintf("-0%d", n), fmt.Sprint(-n)})
		}
	}
	lits = append(lits, c08LitCase{"010.5", "10.5"}, c08LitCase{"00.25", "0.25"})
	for i := range lits {
		if env.Mine(i) {
			lit.Run(&lits[i])
		}
	}

	nkc := c08Named.On(col, "exhaustive over a list: a map whose key type is a named string type, and an index whose type is one, read in dot and bracket spelling, with a literal, a string variable and a named-string variable, nested and through the map filter; oracle: the entry. Distinct by construction", true)
	for i, c := range []c08NamedCase{{"nk.b", "5"}, {`nk["b"]`, "5"}, {"nk[k]", "5"}, {"nk[lang]", "5"}, {"plain[lang]", "6"}, {"plain.b", "6"}, {"nk.c.d", "8"}, {`nk["c"].d`, "8"}, {"nk.zz", ""}, {"nk.size", "2"},
		{`arr | map: "b" | join`, "1 2"}, {"arr[0].b", "1"}, {"arr.first.b", "1"}} {
		if env.Mine(i) {
			c := c
			nkc.Run(&c)
		}
	}

	kk := c08KeyKinds.On(col, "exhaustive over a list: maps with string, int, uint8, int8, float and interface key types and an ordered map, indexed by literals and variables of another kind (int for a string key, string/float/bool for an int key), by numbers the key type cannot hold (257 and -255 for uint8), by the same number in another width, and by a present key; a.size with a size entry that is nil; the same keys through contains. Oracle: the entry for a key of equal value, nil otherwise. Distinct by construction", true)
	for i, c := range []c08NamedCase{
		{"sm[65]", ""}, {"sm[i65]", ""}, {"sm[1]", ""}, {"sm[t]", ""}, {"sm[true]", ""}, {`sm["A"]`, "letter"}, {`sm["1"]`, "digit"}, {"ss[65]", ""}, {"ss.A", "letter"},
		{"im[1.9]", ""}, {"im[f19]", ""}, {`im["1"]`, ""}, {"im[1]", "one"}, {"im[i8v]", "one"}, {"im[u64v]", "one"}, {"im[i65]", "sixtyfive"}, {"im[2]", ""},
		{"u8[257]", ""}, {"u8[u257]", ""}, {"u8[-255]", ""}, {"u8[neg]", ""}, {"u8[1]", "one"}, {"u8[i8v]", "one"}, {"i8[255]", ""}, {"i8[-1]", "m1"},
		{"fm[1.5]", "x"}, {"fm[1]", ""}, {`fm["1.5"]`, ""}, {"am[65]", ""}, {"am[1]", "one"}, {`am["A"]`, "letter"}, {"am.A", "letter"}, {"am[i8v]", "one"},
		{"im.size", "2"}, {"u8.size", "1"}, {"i8.size", "1"}, {"fm.size", "1"}, {"am.size", "2"}, {"sm.size", "3"}, {"ss.size", "1"},
		{"nam.b", "5"}, {`nam["b"]`, "5"}, {"nam.c", "6"}, {"nam.size", "2"}, {"nam.zz", ""},
		{"ms.size", ""}, {"pm.size", ""}, {`ms["size"]`, ""}, {"ms.b", "1"}, {"pm.b", "1"},
		{"sm contains 65", "false"}, {`sm contains "A"`, "true"}, {"im contains 1.9", "false"}, {"im contains 1", "true"}, {"im contains i8v", "true"}, {"u8 contains 257", "false"}, {"u8 contains 1", "true"}, {`im contains "1"`, "false"}, {"am contains i8v", "true"}, {"am contains 65", "false"},
	} {
		if env.Mine(i) {
			c := c
			kk.Run(&c)
		}
	}

	ar := c08Arity.On(col, "exhaustive: every standard filter with five arguments (more than any takes), and unknown filter names with 0..2 arguments, on string/array/number receivers; oracle: an error is returned. Distinct by construction", true)
	for _, f := range si.Filters {
		for _, r := range []string{"x", "a", "n"} {
			idx++
			if env.Mine(idx) {
				ar.Run(&c08ArityCase{Filter: f, NArgs: 5, Recv: r})
				// surplus arguments that evaluate to nil are still arguments
				ar.Run(&c08ArityCase{Filter: f, NArgs: 5, Recv: r, Arg: []string{"nil", "undefined_name", "x.nokey", "\"s\""}[idx%4]})
			}
		}
	}
	// one argument more than the filter takes (the documented parameters of the standard filters)
	c08Takes := map[string]int{"abs": 0, "append": 1, "capitalize": 0, "ceil": 0, "compact": 0, "concat": 1, "date": 1, "default": 1, "divided_by": 1, "downcase": 0, "escape": 0, "escape_once": 0,
		"first": 0, "floor": 0, "join": 1, "last": 0, "lstrip": 0, "map": 1, "minus": 1, "modulo": 1, "newline_to_br": 0, "plus": 1, "prepend": 1, "remove": 1, "remove_first": 1, "replace": 2, "replace_first": 2,
		"reverse": 0, "round": 1, "rstrip": 0, "size": 0, "slice": 2, "sort": 1, "sort_natural": 1, "split": 1, "strip": 0, "strip_html": 0, "strip_newlines": 0, "times": 1, "truncate": 2, "truncatewords": 2,
		"uniq": 0, "upcase": 0, "url_decode": 0, "url_encode": 0}
	for _, f := range si.Filters {
		if n, ok := c08Takes[f]; ok {
			idx++
			if env.Mine(idx) {
				ar.Run(&c08ArityCase{Filter: f, NArgs: n + 1, Recv: "x"})
			}
		}
	}
	for _, f := range []string{"no_such_filter", "upcase2", "Upcase", "size_"} {
		for n := 0; n <= 2; n++ {
			idx++
			if env.Mine(idx) {
				ar.Run(&c08ArityCase{Filter: f, NArgs: n, Recv: "x"})
			}
		}
	}
}

func genPipe(t *rapid.T) *c08PipeCase {
	str := rapid.SampledFrom([]string{"", "a", "b", "ab", "a b c", " Hello World ", "x,y,,z", "<b>é&amp;</b>", "a%20b+c", "line1\nline2", "1", "12.5", "2024-02-29"})
	binds := hx.Bindings{
		"s": hx.SStr(str.Draw(t, "s")), "u": hx.SStr(str.Draw(t, "u")),
		"n": hx.SInt(int64(rapid.IntRange(-3, 9).Draw(t, "n"))), "f": hx.SFloat(float64(rapid.IntRange(-8, 20).Draw(t, "f")) / 4),
		"z": hx.SNil(),
	}
	a := hx.SArr()
	for i, k := 0, rapid.IntRange(0, 4).Draw(t, "alen"); i < k; i++ {
		switch rapid.IntRange(0, 3).Draw(t, "ak") {
		case 0:
			a.E = append(a.E, hx.SNil())
		case 1:
			a.E = append(a.E, hx.SStr(str.Draw(t, "as")))
		default:
			a.E = append(a.E, hx.SInt(int64(rapid.IntRange(-3, 9).Draw(t, "ai"))))
		}
	}
	binds["a"] = a
	w := hx.SArr()
	for i, k := 0, rapid.IntRange(0, 4).Draw(t, "wlen"); i < k; i++ {
		w.E = append(w.E, hx.SStr(str.Draw(t, "ws")))
	}
	binds["w"] = w
	r := hx.SArr(hx.SMap("k", hx.SInt(2), "v", hx.SStr("two")), hx.SMap("v", hx.SStr("none")), hx.SMap("k", hx.SInt(1), "v", hx.SStr("one")))
	binds["r"] = r
	arg := func(kind string) *hx.E {
		switch kind {
		case "S":
			if rapid.Bool().Draw(t, "svar") {
				return hx.Var(rapid.SampledFrom([]string{"s", "u"}).Draw(t, "sv"))
			}
			e := hx.LStr(rapid.SampledFrom([]string{"", "a", " ", ",", "b", "...", "é", "%Y-%m", "v", "k"}).Draw(t, "slit"))
			e.Q = rapid.Bool().Draw(t, "q")
			return e
		case "N":
			switch rapid.IntRange(0, 3).Draw(t, "nk") {
			case 0:
				return hx.Var("n")
			case 1:
				return hx.Var("f")
			default:
				return hx.LInt(int64(rapid.IntRange(-2, 6).Draw(t, "nlit")))
			}
		case "A":
			return hx.Var(rapid.SampledFrom([]string{"a", "w"}).Draw(t, "av"))
		}
		return rapid.SampledFrom([]*hx.E{hx.Var("s"), hx.Var("n"), hx.Var("z"), hx.LStr("dflt"), hx.Var("a")}).Draw(t, "xv")
	}
	kind := rapid.SampledFrom([]string{"S", "S", "A", "N", "X"}).Draw(t, "kind")
	var recv *hx.E
	switch kind {
	case "S":
		recv = arg("S")
	case "A":
		recv = hx.Var(rapid.SampledFrom([]string{"a", "w", "r"}).Draw(t, "recvA"))
	case "N":
		recv = arg("N")
	default:
		recv = arg("X")
	}
	c := &c08PipeCase{Recv: recv, Binds: binds, Sp: hx.GenSpacing(t, "sp")}
	for i, n := 0, rapid.IntRange(1, 4).Draw(t, "nsteps"); i < n; i++ {
		var fit []fsig
		for _, f := range c08Filters {
			if f.in == kind || f.in == "X" || kind == "X" || (f.in == "T" && kind == "S") {
				fit = append(fit, f)
			}
		}
		f := rapid.SampledFrom(fit).Draw(t, "filter")
		st := hx.Flt(hx.LNil(), f.name)
		for _, ak := range f.args {
			opt := strings.HasSuffix(ak, "?")
			if opt && rapid.Bool().Draw(t, "skipopt") {
				break
			}
			st.A = append(st.A, arg(strings.TrimSuffix(ak, "?")))
		}
		c.Steps = append(c.Steps, st)
		kind = f.out
	}
	return c
}
