package props

import (
	"fmt"
	"strings"
	"testing"

	"pgregory.net/rapid"

	"verifharness/hx"
)

// ---- C09: comparison, contains and boolean operators follow the documented value rules ----

var c09Ops = []string{"==", "!=", "<", ">", "<=", ">=", "contains", "and", "or"}

type c09PairCase struct {
	A   string `json:"a"`
	B   string `json:"b"`
	Lit bool   `json:"lit,omitempty"` // operands spelled as literals instead of variables
}

// valueUniverse: the plain members for which the statements give value rules (no Go range, no ordered map)
func valueUniverse() []hx.UVal {
	var out []hx.UVal
	for _, u := range plainUniverse() {
		if !c09Beyond(u.Spec) {
			out = append(out, u)
		}
	}
	return out
}

func plainUniverse() []hx.UVal {
	var out []hx.UVal
	for _, u := range c01U {
		if !u.Plain || (u.Spec.K == "str" && len(u.Spec.S) > 100) {
			continue
		}
		// (a Go range value and an ordered YAML map take part too: the value rules are about nil,
		// booleans, numbers, strings, arrays and maps, but the operators are "coherent for all
		// operands" - see c09Beyond)
		out = append(out, u)
	}
	return out
}

// c09Beyond: representations for which the statement gives no value rules (only loops / array
// filters resp. lookup and size are promised for them: C11, C15, C18)
func c09Beyond(s *hx.Spec) bool {
	if s.R == "range" || s.R == "mapslice" {
		return true
	}
	for _, e := range s.E {
		if c09Beyond(e) {
			return true
		}
	}
	return false
}

// arrays that share one backing array (a slice and a prefix of it, re-slices with other capacities) are
// compared element by element like any others

type c09AliasCase struct {
	Expr string `json:"expr"`
	Want string `json:"want"`
}

var c09Alias = hx.Define("c09.aliased-arrays", func(c *c09AliasCase, s *hx.Sub) *hx.Violation {
	all := []any{1, 2, 3, 4}
	ints := []int{1, 2, 3, 4}
	b := map[string]any{"all": all, "pre": all[:2], "precap": all[:2:2], "same": all[:4], "tail": all[2:], "ints": ints, "ipre": ints[:3], "lists": []any{all[:2], all[1:3]}, "empty": all[:0]}
	src := "{{ " + c.Expr + " }}"
	o := hx.Render(src, b)
	if o.Panic != nil {
		return hx.V("panic@"+o.Panic.Site, "%s: %v", src, o.Panic)
	}
	if !o.OK() || o.Out != c.Want {
		return hx.V("c09:aliased-arrays", "%s with all = [1, 2, 3, 4], pre = all[:2], precap = all[:2:2], same = all[:4], tail = all[2:], empty = all[:0], ints/ipre a []int and its first three, lists = [all[:2], all[1:3]] (Go re-slices of one array): rendered %v, expected %q (arrays are equal when element-wise equal)", src, o, c.Want)
	}
	s.NT()
	return nil
})

func litable(s *hx.Spec) bool {
	if s.R != "" || s.Drop > 0 || s.Ptr || s.U != 0 {
		return false
	}
	switch s.K {
	case "nil", "bool", "int":
		return true
	case "float":
		return s.F < 1e15 && s.F > -1e15
	case "str":
		return !strings.ContainsAny(s.S, "\"'\n}%")
	}
	return false
}

var c09Pair = hx.Define("c09.pair", func(c *c09PairCase, s *hx.Sub) *hx.Violation {
	ua, ok1 := c01Index[c.A]
	ub, ok2 := c01Index[c.B]
	if !ok1 || !ok2 || !ua.Plain || !ub.Plain {
		return hx.V("harness-error", "bad universe names %q %q", c.A, c.B)
	}
	a, b := "a", "b"
	if c.Lit {
		a, b = hx.Lit(ua.Spec).String(), hx.Lit(ub.Spec).String()
	}
	// one template computes every operator in both directions and in both forms
	var sb strings.Builder
	exprs := []string{}
	for _, op := range c09Ops {
		exprs = append(exprs, a+" "+op+" "+b, b+" "+op+" "+a)
	}
	exprs = append(exprs, a+" == "+a, a+" <= "+a, a+" < "+a, a+" != "+a)
	for _, e := range exprs {
		sb.WriteString("{{ " + e + " }},{% if " + e + " %}true{% else %}false{% endif %};")
	}
	binds := map[string]any{"a": ua.Make(), "b": ub.Make()}
	o := hx.Render(sb.String(), binds)
	desc := fmt.Sprintf("a=%s b=%s lit=%v", c.A, c.B, c.Lit)
	if o.Panic != nil {
		return hx.V("panic@"+o.Panic.Site, "%s: %v", desc, o.Panic)
	}
	if o.Err != nil {
		return hx.V("c09:operator-failed", "%s: evaluating an operator must never fail, got %v", desc, o.Err)
	}
	parts := strings.Split(strings.TrimSuffix(o.Out, ";"), ";")
	if len(parts) != len(exprs) {
		return hx.V("harness-error", "%s: unexpected output shape %q", desc, o.Out)
	}
	res := map[string]bool{}
	for i, p := range parts {
		two := strings.Split(p, ",")
		if len(two) != 2 || (two[0] != "true" && two[0] != "false") {
			return hx.V("c09:not-boolean", "%s: {{ %s }} printed %q", desc, exprs[i], p)
		}
		if two[0] != two[1] {
			return hx.V("c09:forms-differ", "%s: {{ %s }} printed %s but {%% if %%} chose %s", desc, exprs[i], two[0], two[1])
		}
		res[exprs[i]] = two[0] == "true"
	}
	r := func(x, op, y string) bool { return res[x+" "+op+" "+y] }
	law := func(name string, ok bool) *hx.Violation {
		if ok {
			return nil
		}
		return hx.V("c09:law:"+name, "%s: coherence law %s violated; results %v", desc, name, res)
	}
	for _, p := range [][2]string{{a, b}, {b, a}} {
		x, y := p[0], p[1]
		for _, v := range []*hx.Violation{
			law("ne-is-not-eq", r(x, "!=", y) == !r(x, "==", y)),
			law("gt-is-flipped-lt", r(x, ">", y) == r(y, "<", x)),
			law("le-is-lt-or-eq", r(x, "<=", y) == (r(x, "<", y) || r(x, "==", y))),
			law("ge-is-gt-or-eq", r(x, ">=", y) == (r(x, ">", y) || r(x, "==", y))),
			law("eq-symmetric", r(x, "==", y) == r(y, "==", x)),
		} {
			if v != nil {
				return v
			}
		}
	}
	if !c.Lit || a != b {
		if v := law("eq-reflexive", r(a, "==", a) && r(a, "<=", a) && !r(a, "<", a) && !r(a, "!=", a)); v != nil {
			return v
		}
	}
	// value rules from the reference model
	if c09Beyond(ua.Spec) || c09Beyond(ub.Spec) {
		s.Class("coherence-laws-only")
		s.NT()
		return nil
	}
	m := hx.NewModel(map[string]any{"a": ua.Spec.Logical(), "b": ub.Spec.Logical()})
	la, lb := m.Vars["a"], m.Vars["b"]
	specified := 0
	for _, op := range c09Ops {
		for _, flip := range []bool{false, true} {
			dir := [2]any{la, lb}
			x, y := a, b
			if flip {
				dir = [2]any{lb, la}
				x, y = b, a
			}
			var want bool
			var st hx.Status
			switch op {
			case "and":
				want, st = isTruthy(dir[0]) && isTruthy(dir[1]), hx.StOK
			case "or":
				want, st = isTruthy(dir[0]) || isTruthy(dir[1]), hx.StOK
			default:
				want, st = m.Compare(op, dir[0], dir[1])
			}
			if st != hx.StOK {
				s.Unspec()
				continue
			}
			specified++
			if got := r(x, op, y); got != want {
				return hx.V("c09:value:"+op, "%s: {{ %s %s %s }} is %v; the documented value rules give %v", desc, x, op, y, got, want)
			}
		}
	}
	if specified > 0 {
		s.NT()
	}
	if s.WantSample() {
		s.Sample(map[string]any{"a": c.A, "b": c.B, "literals": c.Lit, "results": res})
	}
	return nil
})

func isTruthy(v any) bool {
	if v == nil {
		return false
	}
	if b, ok := v.(bool); ok {
		return b
	}
	return true
}

type c09ComboCase struct {
	E    *hx.E             `json:"e"`
	Vars map[string]string `json:"vars"`
	Sp   []int             `json:"sp,omitempty"`
}

var c09Combo = hx.Define("c09.combo", func(c *c09ComboCase, s *hx.Sub) *hx.Violation {
	binds := map[string]any{}
	logical := map[string]any{}
	for v, name := range c.Vars {
		u, ok := c01Index[name]
		if !ok || !u.Plain {
			return hx.V("harness-error", "bad universe name %q", name)
		}
		binds[v] = u.Make()
		logical[v] = u.Spec.Logical()
	}
	expr := c.E.Print(&hx.Spacer{Seq: c.Sp})
	src := "{{ " + expr + " }},{% if " + expr + " %}true{% else %}false{% endif %}"
	o := hx.Render(src, binds)
	if o.Panic != nil {
		return hx.V("panic@"+o.Panic.Site, "%s with %v: %v", src, c.Vars, o.Panic)
	}
	if o.Err != nil {
		return hx.V("c09:operator-failed", "%s with %v failed: %v", src, c.Vars, o.Err)
	}
	i := strings.LastIndex(o.Out, ",")
	two := []string{o.Out[:i], o.Out[i+1:]}
	if c.E.T != "var" && two[0] != two[1] {
		return hx.V("c09:forms-differ", "%s with %v rendered %q", src, c.Vars, o.Out)
	}
	m := hx.NewModel(logical)
	want, st := m.Eval(c.E)
	if st != hx.StOK {
		s.Unspec()
		return nil
	}
	ws := fmt.Sprint(isTruthy(want))
	if two[1] != ws {
		return hx.V("c09:combo-value", "%s with %v rendered %q; the value rules give %q", src, c.Vars, two[0], ws)
	}
	s.NTKey(src + fmt.Sprint(c.Vars))
	if s.WantSample() {
		s.Sample(map[string]any{"template": src, "vars": c.Vars, "output": o.Out})
	}
	return nil
})

func TestC09(t *testing.T) {
	col := hx.NewCollector("C09")
	defer col.Finish()
	col.Corpus()
	env := col.Env
	pu := plainUniverse()

	pair := c09Pair.On(col, fmt.Sprintf("exhaustive: all ordered pairs of the %d plain-data members of the boundary universe (nil, booleans, every signed/unsigned/float width incl. boundary values, ASCII/Unicode/empty/numeric strings, empty/nested/typed arrays, fixed arrays, ranges-as-arrays, maps, typed maps, ordered maps, Drops, pointers) x {== != < > <= >= contains and or} in both directions, as {{ a OP b }} and as {%% if a OP b %%}, operands bound as variables and, when representable, written as literals. Oracle: never an error; both forms agree; coherence laws (!= is not ==, > is flipped <, <= is < or ==, == symmetric and reflexive); value rules from the reference model where the statement fixes them. Every pair is distinct by construction", len(pu)), true)
	idx := 0
	for _, a := range pu {
		for _, b := range pu {
			idx++
			if !env.Mine(idx) {
				continue
			}
			pair.Run(&c09PairCase{A: a.Name, B: b.Name})
			if litable(a.Spec) && litable(b.Spec) {
				pair.Run(&c09PairCase{A: a.Name, B: b.Name, Lit: true})
			}
		}
	}

	al := c09Alias.On(col, "exhaustive over a list: a bound slice and Go re-slices of it (a prefix, a prefix with its own capacity, the whole, a tail, the empty prefix; generic and typed) compared with ==, !=, <=, contains. Oracle: element-wise equality. Distinct by construction", true)
	for i, c := range []c09AliasCase{{"pre == all", "false"}, {"all == pre", "false"}, {"pre != all", "true"}, {"precap == all", "false"}, {"same == all", "true"}, {"tail == all", "false"}, {"empty == all", "false"}, {"empty == pre", "false"},
		{"ipre == ints", "false"}, {"ints == all", "true"}, {"ipre == pre", "false"}, {"pre <= all", "false"}, {"all >= pre", "false"}, {"lists contains all", "false"}, {"lists contains pre", "true"}, {"lists contains precap", "true"}, {"pre == precap", "true"}} {
		if env.Mine(i) {
			c := c
			al.Run(&c)
		}
	}

	combo := c09Combo.On(col, "rapid: and/or/parenthesised combinations (depth <= 4) of comparisons and bare values over variables bound to universe members, printed with random spacing; oracle: reference model (exactly nil and false are falsy). Non-trivial: the model's value is specified; distinct by expression+bindings", false)
	// (the combinations are judged by value rules only: members without value rules stay out)
	var names []string
	for _, u := range pu {
		if !c09Beyond(u.Spec) {
			names = append(names, u.Name)
		}
	}
	vars := []string{"p", "q", "r", "s"}
	var gen func(t *rapid.T, d int) *hx.E
	gen = func(t *rapid.T, d int) *hx.E {
		k := rapid.IntRange(0, 5).Draw(t, "k")
		if d == 0 || k < 2 {
			if k == 0 {
				return hx.Var(rapid.SampledFrom(vars).Draw(t, "v"))
			}
			ops := []string{"==", "!=", "<", ">", "<=", ">=", "contains"}
			return hx.Cmp(rapid.SampledFrom(ops).Draw(t, "op"), hx.Var(rapid.SampledFrom(vars).Draw(t, "l")), hx.Var(rapid.SampledFrom(vars).Draw(t, "r")))
		}
		op := rapid.SampledFrom([]string{"and", "or"}).Draw(t, "bop")
		l, r := gen(t, d-1), gen(t, d-1)
		if l.T == "bool" && (l.N != op || rapid.Bool().Draw(t, "pl")) {
			l = hx.Paren(l)
		}
		if r.T == "bool" {
			r = hx.Paren(r)
		}
		return hx.BoolE(op, l, r)
	}
	col.Rapid(combo.Sub, env.PerShard(env.Pick(200000, 2000000)), func(t *rapid.T) {
		c := &c09ComboCase{E: gen(t, rapid.IntRange(1, 4).Draw(t, "depth")), Vars: map[string]string{}, Sp: hx.GenSpacing(t, "sp")}
		for _, v := range vars {
			c.Vars[v] = rapid.SampledFrom(names).Draw(t, "u"+v)
		}
		if v := combo.Run(c); v != nil {
			t.Fatalf("%s", v.Message)
		}
	})
}
