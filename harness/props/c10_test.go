package props

import (
	"fmt"
	"strings"
	"testing"

	"pgregory.net/rapid"

	"verifharness/hx"
)

// ---- C10: conditional tags render exactly the first branch whose condition is truthy ----

type c10ChainCase struct {
	Vals   []string `json:"vals"` // universe member per branch condition
	Else   bool     `json:"else,omitempty"`
	Unless bool     `json:"unless,omitempty"` // first branch is an unless (no elsif allowed then)
}

func (c *c10ChainCase) build(after string) (string, map[string]any, []bool) {
	b := map[string]any{}
	truth := make([]bool, len(c.Vals))
	for i, name := range c.Vals {
		u := c01Index[name]
		b[fmt.Sprintf("c%d", i)] = u.Make()
		truth[i] = isTruthy(u.Spec.Logical())
	}
	if c.Unless {
		truth[0] = !truth[0]
	}
	// first truthy branch
	sel := -1
	for i, t := range truth {
		if t {
			sel = i
			break
		}
	}
	var sb strings.Builder
	for i := range c.Vals {
		filter := "tick"
		if sel >= 0 && i > sel {
			filter = after // conditions after the selected branch: counting or failing
		}
		tag := "elsif"
		if i == 0 {
			tag = "if"
			if c.Unless {
				tag = "unless"
			}
		}
		fmt.Fprintf(&sb, "{%% %s c%d | %s %%}<B%d>", tag, i, filter, i)
	}
	if c.Else {
		sb.WriteString("{% else %}<E>")
	}
	if c.Unless {
		sb.WriteString("{% endunless %}")
	} else {
		sb.WriteString("{% endif %}")
	}
	return sb.String(), b, truth
}

var c10Chain = hx.Define("c10.chain", func(c *c10ChainCase, s *hx.Sub) *hx.Violation {
	for _, name := range c.Vals {
		if u, ok := c01Index[name]; !ok || !u.Plain {
			return hx.V("harness-error", "bad universe name %q", name)
		}
	}
	for _, after := range []string{"tick", "fail", "no_such_filter", "divided_by: 0"} {
		src, binds, truth := c.build(after)
		ticks := 0
		o := hx.RenderWith(newEngine(&ticks), src, binds)
		if o.Panic != nil {
			return hx.V("panic@"+o.Panic.Site, "%s with %v: %v", src, c.Vals, o.Panic)
		}
		sel := -1
		for i, t := range truth {
			if t {
				sel = i
				break
			}
		}
		want, wantTicks := "", len(c.Vals)
		switch {
		case sel >= 0:
			want, wantTicks = fmt.Sprintf("<B%d>", sel), sel+1
		case c.Else:
			want = "<E>"
		}
		if o.Err != nil {
			return hx.V("c10:later-condition-evaluated", "%s with conditions %v failed: %v; conditions after the selected branch (%d) must not be evaluated", src, c.Vals, o.Err, sel)
		}
		if o.Out != want {
			return hx.V("c10:branch", "%s with conditions %v rendered %q; the first truthy branch is %d (every value except nil and false is truthy), expected %q", src, c.Vals, o.Out, sel, want)
		}
		if ticks != wantTicks {
			return hx.V("c10:ticks", "%s with conditions %v evaluated %d conditions; exactly the first %d must be evaluated", src, c.Vals, ticks, wantTicks)
		}
	}
	if len(c.Vals) >= 2 {
		s.NT()
	}
	if s.WantSample() {
		src, _, _ := c.build("fail")
		s.Sample(map[string]any{"template": src, "conditions": c.Vals})
	}
	return nil
})

type c10CaseCase struct {
	Subj  string   `json:"subj"`
	Whens []string `json:"whens"` // clause i lists Whens[2i], Whens[2i+1]
	Else  bool     `json:"else,omitempty"`
	Lit   bool     `json:"lit,omitempty"` // when values (and the subject) written as literals where they have one
}

var c10Case = hx.Define("c10.case", func(c *c10CaseCase, s *hx.Sub) *hx.Violation {
	b := map[string]any{}
	logical := map[string]any{}
	get := func(name, v string) bool {
		u, ok := c01Index[v]
		if !ok || !u.Plain {
			return false
		}
		b[name], logical[name] = u.Make(), u.Spec.Logical()
		return true
	}
	if !get("s", c.Subj) {
		return hx.V("harness-error", "bad subject %q", c.Subj)
	}
	var sb strings.Builder
	sb.WriteString("{% case s %}")
	for i := 0; i+1 < len(c.Whens); i += 2 {
		n1, n2 := fmt.Sprintf("w%d", i), fmt.Sprintf("w%d", i+1)
		if !get(n1, c.Whens[i]) || !get(n2, c.Whens[i+1]) {
			return hx.V("harness-error", "bad when values")
		}
		if c.Lit {
			for k, n := range []*string{&n1, &n2} {
				if u := c01Index[c.Whens[i+k]]; litable(u.Spec) {
					*n = hx.Lit(u.Spec).String()
				}
			}
		}
		fmt.Fprintf(&sb, "{%% when %s, %s %%}<W%d>", n1, n2, i/2)
	}
	if c.Else {
		sb.WriteString("{% else %}<E>")
	}
	sb.WriteString("{% endcase %}")
	src := sb.String()
	o := hx.Render(src, b)
	if o.Panic != nil {
		return hx.V("panic@"+o.Panic.Site, "%s with subject %s whens %v: %v", src, c.Subj, c.Whens, o.Panic)
	}
	if o.Err != nil {
		return hx.V("c10:case-error", "%s with subject %s whens %v failed: %v", src, c.Subj, c.Whens, o.Err)
	}
	m := hx.NewModel(logical)
	want := ""
	if c.Else {
		want = "<E>"
	}
	for i := 0; i+1 < len(c.Whens); i += 2 {
		hit := false
		for _, n := range []string{fmt.Sprintf("w%d", i), fmt.Sprintf("w%d", i+1)} {
			eq, st := m.Equal(m.Vars["s"], m.Vars[n])
			if st != hx.StOK {
				s.Unspec()
				return nil
			}
			if eq {
				hit = true
				break
			}
		}
		if hit {
			want = fmt.Sprintf("<W%d>", i/2)
			break
		}
	}
	if o.Out != want {
		return hx.V("c10:case-branch", "%s with subject %s and when-lists %v rendered %q; expected %q (first when clause listing a value equal to the subject, otherwise else)", src, c.Subj, c.Whens, o.Out, want)
	}
	s.NT()
	if s.WantSample() {
		s.Sample(map[string]any{"template": src, "subject": c.Subj, "whens": c.Whens, "output": o.Out})
	}
	return nil
})

type c10DualCase struct {
	Cond  *hx.E       `json:"cond"`
	Binds hx.Bindings `json:"binds"`
	Sp    []int       `json:"sp,omitempty"`
}

var c10Dual = hx.Define("c10.duality", func(c *c10DualCase, s *hx.Sub) *hx.Violation {
	cs := c.Cond.Print(&hx.Spacer{Seq: c.Sp})
	a := "{% if " + cs + " %}A{% else %}B{% endif %}"
	b := "{% unless " + cs + " %}B{% else %}A{% endunless %}"
	oa := hx.RenderWith(newEngine(nil), a, c.Binds.Realise())
	ob := hx.RenderWith(newEngine(nil), b, c.Binds.Realise())
	for _, o := range []hx.Outcome{oa, ob} {
		if o.Panic != nil {
			return hx.V("panic@"+o.Panic.Site, "%s: %v", a, o.Panic)
		}
	}
	if !oa.Same(ob) {
		return hx.V("c10:duality", "%s renders %v but %s renders %v", a, oa, b, ob)
	}
	if oa.OK() {
		s.NTKey(cs + bindingsString(c.Binds))
		s.Class("selected-" + oa.Out)
	} else {
		s.Class("both-fail")
	}
	if s.WantSample() {
		s.Sample(map[string]any{"if": a, "unless": b, "output": oa.String()})
	}
	return nil
})

var c10Model = hx.Define("c10.programs", func(c *progCase, s *hx.Sub) *hx.Violation {
	v, specified := modelVsImpl(c, s, "c10")
	if v != nil {
		return v
	}
	if specified && (hasNode(c.P.Nodes, "if") || hasNode(c.P.Nodes, "unless") || hasNode(c.P.Nodes, "case")) {
		s.NTKey(hx.Source(c.P.Nodes) + bindingsString(c.P.Binds))
	}
	if s.WantSample() {
		s.Sample(c.P.Describe())
	}
	return nil
})

func TestC10(t *testing.T) {
	col := hx.NewCollector("C10")
	defer col.Finish()
	col.Corpus()
	env := col.Env
	pu := valueUniverse()

	chain := c10Chain.On(col, fmt.Sprintf("exhaustive: if/elsif/else chains of 1..4 branches (and unless/else) in which every position takes every one of the %d plain universe values while the other positions are all nil or all true, and every ordered pair of universe values in the first two positions of a three-branch chain; each rendered four times with the conditions after the selected branch replaced by a counting filter, a filter that returns an error, an unknown filter and a division by zero. Oracle: exactly the first truthy branch (only nil and false are falsy), no error and no evaluation after it. Distinct by construction; non-trivial with >= 2 branches", len(pu)), true)
	idx := 0
	runChain := func(c *c10ChainCase) {
		idx++
		if env.Mine(idx) {
			chain.Run(c)
		}
	}
	for L := 1; L <= 4; L++ {
		for p := 0; p < L; p++ {
			for _, u := range pu {
				for _, other := range []string{"nil", "true", "false", "0"} {
					vals := make([]string, L)
					for i := range vals {
						vals[i] = other
					}
					vals[p] = u.Name
					runChain(&c10ChainCase{Vals: vals, Else: idx%2 == 0})
					if L == 1 {
						runChain(&c10ChainCase{Vals: vals, Else: idx%2 == 0, Unless: true})
					}
				}
			}
		}
	}
	for _, a := range pu {
		for _, b := range pu {
			runChain(&c10ChainCase{Vals: []string{a.Name, b.Name, "1"}, Else: true})
		}
	}

	cs := c10Case.On(col, "exhaustive: case with subject and first when value ranging over all ordered pairs of the plain universe (other when values fixed), two clauses that both match (the first must win), with and without else, values bound to variables and written as literals (incl. quoted strings that contain the words or / and and commas). Oracle: first when clause listing a value equal (reference ==) to the subject, otherwise else, otherwise nothing; pairs whose equality the statement leaves open are counted as unspecified. Distinct by construction", true)
	for _, a := range pu {
		// a case without any when clause: the else clause, if there is one
		idx++
		if env.Mine(idx) {
			cs.Run(&c10CaseCase{Subj: a.Name, Else: true})
			cs.Run(&c10CaseCase{Subj: a.Name})
		}
		for _, b := range pu {
			idx++
			if !env.Mine(idx) {
				continue
			}
			cs.Run(&c10CaseCase{Subj: a.Name, Whens: []string{b.Name, "4KiB", a.Name, "nil"}, Else: idx%2 == 0})
			cs.Run(&c10CaseCase{Subj: a.Name, Whens: []string{"4KiB", b.Name, b.Name, b.Name}, Else: idx%3 == 0})
			if litable(b.Spec) {
				cs.Run(&c10CaseCase{Subj: a.Name, Whens: []string{b.Name, `"now or never"`, a.Name, b.Name}, Else: idx%2 == 0, Lit: true})
			}
		}
	}

	dual := c10Dual.On(col, "rapid: generated conditions (comparisons, contains, and/or, truthiness of any value, filtered values, conditions that fail: error-returning filter, division by zero) with random spacing; metamorphic oracle: {% if c %}A{% else %}B{% endif %} and {% unless c %}B{% else %}A{% endunless %} render identically (both fail or equal bytes). Non-trivial: both render; distinct by condition+bindings", false)
	prof := hx.FullProfile()
	prof.Failing, prof.Ticks = true, true
	col.Rapid(dual.Sub, env.PerShard(env.Pick(150000, 1500000)), func(t *rapid.T) {
		c := &c10DualCase{Cond: hx.GenCond(t, prof, rapid.IntRange(0, 3).Draw(t, "depth")), Binds: hx.GenBindings(t, prof), Sp: hx.GenSpacing(t, "sp")}
		if v := dual.Run(c); v != nil {
			t.Fatalf("%s", v.Message)
		}
	})

	progs := c10Model.On(col, "rapid: conditional programs (1..6 branches, nested to depth 4, mixed with loops, assigns and captures) whose conditions are generated expressions, some passing through a counting filter and some failing; oracle: reference interpreter output, error iff an evaluated condition fails, number of evaluated counting filters within the model's bounds. Non-trivial: specified output and at least one conditional; distinct by template+bindings", false)
	prof2 := hx.FullProfile()
	prof2.Failing, prof2.Ticks, prof2.MaxDepth, prof2.MaxNodes = true, true, 4, 18
	col.Rapid(progs.Sub, env.PerShard(env.Pick(150000, 1500000)), func(t *rapid.T) {
		c := &progCase{P: hx.GenProgram(t, prof2), Sp: hx.GenSpacing(t, "sp")}
		if v := progs.Run(c); v != nil {
			t.Fatalf("%s", v.Message)
		}
	})
}
