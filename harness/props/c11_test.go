package props

import (
	"fmt"
	"regexp"
	"sort"
	"strings"
	"testing"

	"github.com/osteele/liquid/values"
	"pgregory.net/rapid"

	"verifharness/hx"
)

// ---- C11: loops visit exactly the selected items with consistent forloop state ----

type c11Case struct {
	Tag    string `json:"tag"`  // for | tablerow
	Coll   string `json:"coll"` // any | ints | array | range | litrange | strs | nil | undefined
	A      int    `json:"a"`    // first item (ranges: lower endpoint)
	Len    int    `json:"len"`  // number of items (ranges: b = a+len-1, so len may be <= 0)
	Off    *int   `json:"off,omitempty"`
	Lim    *int   `json:"lim,omitempty"`
	Rev    bool   `json:"rev,omitempty"`
	Cols   *int   `json:"cols,omitempty"`
	Jump   string `json:"jump,omitempty"` // break | continue
	At     int    `json:"at,omitempty"`
	Else   bool   `json:"else,omitempty"`
	ModVar bool   `json:"modvar,omitempty"` // modifiers given through variables
}

func (c *c11Case) items() []string {
	var out []string
	for i := 0; i < c.Len; i++ {
		if c.Coll == "strs" {
			out = append(out, fmt.Sprintf("s%d", c.A+i))
		} else {
			out = append(out, fmt.Sprint(c.A+i))
		}
	}
	return out
}

func (c *c11Case) build() (string, map[string]any) {
	b := map[string]any{"x": "OUT"}
	coll := "c"
	switch c.Coll {
	case "any":
		a := make([]any, 0, c.Len)
		for i := 0; i < c.Len; i++ {
			a = append(a, c.A+i)
		}
		b["c"] = a
	case "ints":
		a := make([]int, 0, c.Len)
		for i := 0; i < c.Len; i++ {
			a = append(a, c.A+i)
		}
		b["c"] = a
	case "strs":
		a := make([]string, 0, c.Len)
		for i := 0; i < c.Len; i++ {
			a = append(a, fmt.Sprintf("s%d", c.A+i))
		}
		b["c"] = a
	case "array":
		var arr [8]int
		for i := 0; i < c.Len && i < 8; i++ {
			arr[i] = c.A + i
		}
		switch c.Len {
		case 0:
			b["c"] = [0]int{}
		case 1:
			b["c"] = [1]int{arr[0]}
		case 2:
			b["c"] = [2]int{arr[0], arr[1]}
		case 3:
			b["c"] = [3]int{arr[0], arr[1], arr[2]}
		case 4:
			b["c"] = [4]int{arr[0], arr[1], arr[2], arr[3]}
		case 5:
			b["c"] = [5]int{arr[0], arr[1], arr[2], arr[3], arr[4]}
		case 6:
			b["c"] = [6]int{arr[0], arr[1], arr[2], arr[3], arr[4], arr[5]}
		default:
			b["c"] = [7]int{arr[0], arr[1], arr[2], arr[3], arr[4], arr[5], arr[6]}
		}
	case "range":
		b["c"] = values.NewRange(c.A, c.A+c.Len-1)
	case "litrange":
		coll = fmt.Sprintf("(%d..%d)", c.A, c.A+c.Len-1)
	case "varrange":
		b["lo"], b["hi"] = c.A, c.A+c.Len-1
		coll = "(lo..hi)"
	case "nil":
		b["c"] = nil
	case "undefined":
	}
	h := c.Tag + " x in " + coll
	if c.Rev {
		h += " reversed"
	}
	mod := func(name string, v *int) {
		if v == nil {
			return
		}
		if c.ModVar {
			b["m_"+name] = *v
			h += " " + name + ": m_" + name
		} else {
			h += fmt.Sprintf(" %s: %d", name, *v)
		}
	}
	mod("offset", c.Off)
	mod("limit", c.Lim)
	if c.Tag == "tablerow" {
		mod("cols", c.Cols)
	}
	body := "[{{ x }}|{{ forloop.index }}|{{ forloop.index0 }}|{{ forloop.rindex }}|{{ forloop.rindex0 }}|{{ forloop.length }}|{{ forloop.first }}|{{ forloop.last }}]"
	if c.Jump != "" {
		body += fmt.Sprintf("{%% if forloop.index == %d %%}{%% %s %%}{%% endif %%}", c.At, c.Jump)
	}
	body += "a"
	src := "{% " + h + " %}" + body
	if c.Else && c.Tag == "for" {
		src += "{% else %}ELSE"
	}
	src += "{% end" + c.Tag + " %}#{{ x }}#{{ forloop }}#{{ forloop.index }}"
	return src, b
}

var c11Rows = regexp.MustCompile(`(?s)<tr class="row(\d+)">(.*?)</tr>`)
var c11Cells = regexp.MustCompile(`(?s)<td class="col(\d+)">(.*?)</td>`)

var c11Grid = hx.Define("c11.grid", func(c *c11Case, s *hx.Sub) *hx.Violation {
	src, binds := c.build()
	o := hx.Render(src, binds)
	if o.Panic != nil {
		return hx.V("panic@"+o.Panic.Site, "%s: %v", src, o.Panic)
	}
	if o.Err != nil {
		return hx.V("c11:error", "%s failed: %v", src, o.Err)
	}
	i := strings.Index(o.Out, "#")
	if i < 0 || o.Out[i:] != "#OUT##" {
		return hx.V("c11:not-restored", "%s rendered %q: after the loop the loop variable and forloop must have their earlier values (#OUT##)", src, o.Out)
	}
	got := o.Out[:i]
	// reference selection: reverse, skip o, take n
	items := c.items()
	if c.Rev {
		for l, r := 0, len(items)-1; l < r; l, r = l+1, r-1 {
			items[l], items[r] = items[r], items[l]
		}
	}
	unspec := false
	if c.Off != nil {
		if *c.Off < 0 {
			unspec = true
		} else if *c.Off >= len(items) {
			items = nil
		} else {
			items = items[*c.Off:]
		}
	}
	if c.Lim != nil {
		if *c.Lim < 0 {
			unspec = true
		} else if *c.Lim < len(items) {
			items = items[:*c.Lim]
		}
	}
	n := len(items)
	text := got
	if c.Tag == "tablerow" {
		// structure: the output is exactly a sequence of rows, each exactly a sequence of cells
		cols := 0
		colsSpecified := true
		if c.Cols != nil {
			cols = *c.Cols
			if cols <= 0 {
				colsSpecified = false
			}
		}
		text = ""
		if unspec {
			text = rowTags.ReplaceAllString(got, "") // the selection itself is open: only the cells' text is checked
		} else {
			rest := got
			rows := c11Rows.FindAllStringSubmatch(got, -1)
			rebuilt := ""
			total := 0
			for ri, r := range rows {
				if r[1] != fmt.Sprint(ri+1) {
					return hx.V("c11:tablerow-structure", "%s rendered %q: row classes must count 1, 2, ...", src, got)
				}
				cells := c11Cells.FindAllStringSubmatch(r[2], -1)
				inner := ""
				for ci, cell := range cells {
					if cell[1] != fmt.Sprint(ci+1) {
						return hx.V("c11:tablerow-structure", "%s rendered %q: cell classes must count 1, 2, ... within a row", src, got)
					}
					inner += cell[0]
					text += cell[2]
					total++
				}
				if inner != r[2] {
					return hx.V("c11:tablerow-structure", "%s rendered %q: a row must consist of td cells only", src, got)
				}
				if c.Cols != nil && colsSpecified {
					if len(cells) > cols || (ri < len(rows)-1 && len(cells) != cols) || len(cells) == 0 {
						return hx.V("c11:tablerow-cols", "%s rendered %q: every %d items form a row", src, got, cols)
					}
				}
				rebuilt += r[0]
			}
			if rebuilt != rest {
				return hx.V("c11:tablerow-structure", "%s rendered %q: the output must consist of tr rows only", src, got)
			}
			if c.Cols == nil && len(rows) > 1 {
				return hx.V("c11:tablerow-cols", "%s rendered %q: without cols all items form one row", src, got)
			}
			_ = total
		}
	}
	if unspec {
		// negative offset / limit: the statement is silent on the selection; the trace must still be internally consistent
		s.Unspec()
		recs := strings.Split(strings.TrimSuffix(strings.ReplaceAll(text, "]a", "]"), "]"), "]")
		if text == "" || text == "ELSE" || c.Jump != "" {
			return nil
		}
		for k, r := range recs {
			f := strings.Split(strings.TrimPrefix(r, "["), "|")
			L := len(recs)
			want := fmt.Sprintf("%d|%d|%d|%d|%d|%v|%v", k+1, k, L-k, L-k-1, L, k == 0, k == L-1)
			if len(f) != 8 || strings.Join(f[1:], "|") != want {
				return hx.V("c11:forloop-inconsistent", "%s rendered %q: record %d should carry forloop fields %s", src, got, k+1, want)
			}
		}
		return nil
	}
	var want strings.Builder
	if n == 0 {
		if c.Else && c.Tag == "for" {
			want.WriteString("ELSE")
		}
	}
	for k, it := range items {
		fmt.Fprintf(&want, "[%s|%d|%d|%d|%d|%d|%v|%v]", it, k+1, k, n-k, n-k-1, n, k == 0, k == n-1)
		if c.Jump != "" && k+1 == c.At {
			if c.Jump == "break" {
				break
			}
			continue
		}
		want.WriteString("a")
	}
	if text != want.String() {
		return hx.V("c11:trace", "%s rendered %q\n   expected trace %q (reverse, then skip offset, then take limit; else iff nothing selected)", src, got, want.String())
	}
	if n >= 2 || (c.Off != nil && *c.Off > 0 && c.Len > 0) || (c.Lim != nil && *c.Lim < c.Len) || (n == 0 && c.Else) {
		s.NT()
	}
	if s.WantSample() {
		s.Sample(map[string]any{"template": src, "output": o.Out})
	}
	return nil
})

// ---- maps: each [key, value] pair exactly once ----

type c11MapCase struct {
	Keys []string `json:"keys"`
	Rep  string   `json:"rep"` // "", typed, mapslice
	Tag  string   `json:"tag"`
}

var c11Map = hx.Define("c11.map", func(c *c11MapCase, s *hx.Sub) *hx.Violation {
	spec := hx.SMap()
	for i, k := range c.Keys {
		spec.Keys = append(spec.Keys, k)
		spec.E = append(spec.E, hx.SInt(int64(i*7+1)))
	}
	spec.R = c.Rep
	// the first pair and the previous pair are kept in variables and read later: a pair is a value of its own
	src := "{% " + c.Tag + " kv in m %}{% if forloop.first %}{% assign head = kv %}{% endif %}[{{ kv[0] }}={{ kv[1] }}|{{ forloop.index }}/{{ forloop.length }}|{{ prev[0] }}={{ prev[1] }}]{% assign prev = kv %}{% end" + c.Tag + " %}«{{ head[0] }}={{ head[1] }}»"
	o := hx.Render(src, map[string]any{"m": spec.Realise()})
	if o.Panic != nil {
		return hx.V("panic@"+o.Panic.Site, "%s over %v: %v", src, c.Keys, o.Panic)
	}
	if o.Err != nil {
		return hx.V("c11:error", "%s over %v failed: %v", src, c.Keys, o.Err)
	}
	text := rowTags.ReplaceAllString(o.Out, "")
	text, head, _ := strings.Cut(text, "«")
	head = strings.TrimSuffix(head, "»")
	recs := strings.Split(strings.TrimSuffix(strings.TrimPrefix(text, "["), "]"), "][")
	if text == "" {
		recs = nil
	}
	var got, want []string
	prev := "="
	for i, r := range recs {
		f := strings.Split(r, "|")
		if len(f) != 3 {
			return hx.V("c11:map-forloop", "%s over map with keys %v rendered %q", src, c.Keys, o.Out)
		}
		got = append(got, f[0])
		if f[1] != fmt.Sprintf("%d/%d", i+1, len(c.Keys)) {
			return hx.V("c11:map-forloop", "%s over map with keys %v rendered %q: forloop fields are inconsistent", src, c.Keys, o.Out)
		}
		if f[2] != prev {
			return hx.V("c11:map-pair-kept", "%s over map with keys %v rendered %q: in iteration %d the pair kept from the previous iteration reads %q, it was %q", src, c.Keys, o.Out, i+1, f[2], prev)
		}
		prev = f[0]
	}
	if first := append(got, "=")[0]; head != first {
		return hx.V("c11:map-pair-kept", "%s over map with keys %v rendered %q: the first pair, kept in a variable, reads %q after the loop; it was %q", src, c.Keys, o.Out, head, first)
	}
	for i, k := range c.Keys {
		want = append(want, fmt.Sprintf("%s=%d", k, i*7+1))
	}
	sort.Strings(got)
	sort.Strings(want)
	if strings.Join(got, ",") != strings.Join(want, ",") {
		return hx.V("c11:map-pairs", "%s over map with keys %v (%s) rendered %q: each [key, value] pair must be visited exactly once", src, c.Keys, c.Rep, o.Out)
	}
	if len(c.Keys) >= 2 {
		s.NTKey(fmt.Sprint(c.Keys, c.Rep, c.Tag))
	}
	if s.WantSample() {
		s.Sample(map[string]any{"template": src, "keys": c.Keys, "rep": c.Rep, "output": o.Out})
	}
	return nil
})

var c11Model = hx.Define("c11.nesting", func(c *progCase, s *hx.Sub) *hx.Violation {
	v, specified := modelVsImpl(c, s, "c11")
	if v != nil {
		return v
	}
	if specified && (hasNode(c.P.Nodes, "for") || hasNode(c.P.Nodes, "tablerow")) {
		s.NTKey(hx.Source(c.P.Nodes) + bindingsString(c.P.Binds))
		if hasNode(c.P.Nodes, "cycle") {
			s.Class("with-cycle")
		}
		if hasNode(c.P.Nodes, "break") || hasNode(c.P.Nodes, "continue") {
			s.Class("with-jump")
		}
	}
	if s.WantSample() {
		s.Sample(c.P.Describe())
	}
	return nil
})

func ip(i int) *int { return &i }

// cycle emits its values, exactly: also values that begin or end with white space, beside a hyphenated neighbour

type c11CycleWsCase struct {
	Vals []string `json:"vals"`
	N    int      `json:"n"`
	Form int      `json:"form"`
}

var c11CycleWs = hx.Define("c11.cycle-values-exact", func(c *c11CycleWsCase, s *hx.Sub) *hx.Violation {
	var lits []string
	for _, v := range c.Vals {
		lits = append(lits, "\""+v+"\"")
	}
	cyc := "{% cycle " + strings.Join(lits, ", ") + " %}"
	var src string
	switch c.Form {
	case 0:
		src = "{% for i in (1..n) %}" + cyc + "{%- endfor %}|"
	case 1:
		src = "{% for i in (1..n) -%}" + cyc + "{% endfor %}|"
	case 2:
		src = "{% for i in (1..n) %}{% assign z = i -%}" + cyc + "{%- assign z = i %}{% endfor %}|"
	case 3:
		src = "{% tablerow i in (1..n) cols: 2 -%}" + cyc + "{%- endtablerow %}|"
	default:
		src = "{% for i in (1..n) %}{{ i -}}" + cyc + "{{- i }}{% endfor %}|"
	}
	want := ""
	for i := 0; i < c.N; i++ {
		v := c.Vals[i%len(c.Vals)]
		switch c.Form {
		case 3:
			if i%2 == 0 {
				want += fmt.Sprintf("<tr class=\"row%d\">", i/2+1)
			}
			want += fmt.Sprintf("<td class=\"col%d\">%s</td>", i%2+1, v)
			if i%2 == 1 || i == c.N-1 {
				want += "</tr>"
			}
		case 4:
			want += fmt.Sprint(i+1) + v + fmt.Sprint(i+1)
		default:
			want += v
		}
	}
	want += "|"
	o := hx.Render(src, map[string]any{"n": c.N})
	if o.Panic != nil {
		return hx.V("panic@"+o.Panic.Site, "%q: %v", src, o.Panic)
	}
	if !o.OK() || o.Out != want {
		return hx.V("c11:cycle-value-trimmed", "%q with n = %d rendered %v, expected %q: cycle emits its values", src, c.N, o, want)
	}
	s.NT()
	if s.WantSample() {
		s.Sample(map[string]any{"template": src, "output": o.Out})
	}
	return nil
})

// break and continue act on the innermost enclosing loop, whatever blocks stand between them and it

type c11JumpCase struct {
	Tpl  string `json:"template"`
	Want string `json:"want"`
}

var c11Jump = hx.Define("c11.jump-through-blocks", func(c *c11JumpCase, s *hx.Sub) *hx.Violation {
	o := hx.Render(c.Tpl, map[string]any{"a": []any{1, 2, 3, 4}})
	if o.Panic != nil {
		return hx.V("panic@"+o.Panic.Site, "%q: %v", c.Tpl, o.Panic)
	}
	if !o.OK() || o.Out != c.Want {
		return hx.V("c11:jump-through-block", "%q with a = [1, 2, 3, 4] rendered %v, expected %q: break ends, continue skips to the next iteration of, the innermost enclosing loop", c.Tpl, o, c.Want)
	}
	s.NT()
	return nil
})

func TestC11(t *testing.T) {
	col := hx.NewCollector("C11")
	defer col.Finish()
	col.Corpus()
	env := col.Env

	jp := c11Jump.On(col, "exhaustive over a list: break and continue inside capture, if, unless, case and nested combinations of them within for and tablerow loops, and an inner loop's jump that must not reach the outer loop. Oracle: fixed expected outputs. Distinct by construction", true)
	for i, c := range []c11JumpCase{
		{"{% for i in a %}{% capture c %}{% if i == 2 %}{% break %}{% endif %}{% endcapture %}{{ i }}{% endfor %}", "1"},
		{"{% for i in a %}{% capture c %}{% if i == 2 %}{% continue %}{% endif %}{% endcapture %}{{ i }}{% endfor %}", "134"},
		{"{% for i in a %}{% capture c %}x{% break %}{% endcapture %}{{ i }}{% endfor %}|", "|"},
		{"{% for i in a %}{% unless i < 3 %}{% case i %}{% when 3 %}{% break %}{% endcase %}{% endunless %}{{ i }}{% endfor %}", "12"},
		{"{% for i in a %}{% case i %}{% when 2 %}{% continue %}{% else %}{{ i }}{% endcase %}{% endfor %}", "134"},
		{"{% for i in a %}{% for j in a %}{% capture c %}{% if j == 2 %}{% break %}{% endif %}{% endcapture %}{{ j }}{% endfor %}{{ i }};{% endfor %}", "11;12;13;14;"},
		{"{% tablerow i in a %}{% capture c %}{% if i == 3 %}{% break %}{% endif %}{% endcapture %}{{ i }}{% endtablerow %}", "<tr class=\"row1\"><td class=\"col1\">1</td><td class=\"col2\">2</td><td class=\"col3\"></td></tr>"},
		{"{% for i in a %}{% capture c %}{% for j in a %}{% break %}{% endfor %}{% endcapture %}{{ i }}{% endfor %}", "1234"},
	} {
		if env.Mine(i) {
			c := c
			jp.Run(&c)
		}
	}

	cw := c11CycleWs.On(col, "exhaustive over a list: cycle values that begin or end with spaces or newlines x n in 1..4 x {hyphen on the end tag after the cycle, on the for tag before it, on assign tags on both sides, on tablerow tags, on objects on both sides}; oracle: the values, exactly, round-robin. Distinct by construction", true)
	{
		i := 0
		for _, vals := range [][]string{{"a ", " b"}, {" ", "x"}, {"\n", "y "}, {" p ", " q ", "r"}} {
			for n := 1; n <= 4; n++ {
				for form := 0; form <= 4; form++ {
					i++
					if env.Mine(i) {
						cw.Run(&c11CycleWsCase{Vals: vals, N: n, Form: form})
					}
				}
			}
		}
	}

	maxLen, maxMod := env.Pick(5, 7), env.Pick(6, 8)
	grid := c11Grid.On(col, fmt.Sprintf("bounded-exhaustive grid: collection length 0..%d x offset {absent,-1..%d} x limit {absent,-1..%d} x reversed x {for, tablerow with cols absent/0..4} x {no jump, break at i, continue at i (i in 1..3)} x else/no else, over []any, []int, []string, fixed arrays, Go ranges, literal and variable ranges (all endpoint pairs in -3..6), nil and undefined collections; modifiers as literals and as variables. The body prints [item|index|index0|rindex|rindex0|length|first|last]; oracle: reverse -> skip offset -> take limit, forloop formulas of the statement, else iff nothing selected, break/continue semantics, loop variable and forloop restored afterwards, tablerow row/cell structure. Negative offset/limit: only internal consistency. Every grid point is distinct; non-trivial when >= 2 items are selected or a modifier changes the selection", maxLen, maxMod, maxMod), true)
	mods := []*int{nil}
	for v := -1; v <= maxMod; v++ {
		mods = append(mods, ip(v))
	}
	type tagCols struct {
		tag  string
		cols *int
	}
	tags := []tagCols{{"for", nil}, {"tablerow", nil}}
	for v := 0; v <= 4; v++ {
		tags = append(tags, tagCols{"tablerow", ip(v)})
	}
	type jump struct {
		kind string
		at   int
	}
	jumps := []jump{{"", 0}}
	for at := 1; at <= 3; at++ {
		jumps = append(jumps, jump{"break", at}, jump{"continue", at})
	}
	colls := []string{"any", "ints", "array", "range", "litrange", "strs"}
	idx := 0
	for l := 0; l <= maxLen; l++ {
		for _, off := range mods {
			for _, lim := range mods {
				for _, rev := range []bool{false, true} {
					for _, tc := range tags {
						for _, j := range jumps {
							idx++
							if !env.Mine(idx) {
								continue
							}
							reps := colls
							if !env.Thorough() {
								reps = []string{colls[idx%len(colls)]}
							}
							for _, rep := range reps {
								c := &c11Case{Tag: tc.tag, Coll: rep, A: 10, Len: l, Off: off, Lim: lim, Rev: rev, Cols: tc.cols, Jump: j.kind, At: j.at, Else: idx%2 == 0, ModVar: idx%3 == 0}
								grid.Run(c)
							}
						}
					}
				}
			}
		}
	}
	// ranges: all endpoint pairs in -3..6, nil / undefined collections
	for a := -3; a <= 6; a++ {
		for b := -3; b <= 6; b++ {
			for _, rep := range []string{"litrange", "varrange", "range"} {
				for _, els := range []bool{false, true} {
					for _, tag := range []string{"for", "tablerow"} {
						idx++
						if env.Mine(idx) {
							grid.Run(&c11Case{Tag: tag, Coll: rep, A: a, Len: b - a + 1, Else: els, Rev: idx%2 == 0})
						}
					}
				}
			}
		}
	}
	for _, rep := range []string{"nil", "undefined", "any", "ints", "strs"} {
		for _, els := range []bool{false, true} {
			for _, off := range []*int{nil, ip(0), ip(2)} {
				idx++
				if env.Mine(idx) {
					grid.Run(&c11Case{Tag: "for", Coll: rep, A: 1, Len: 0, Else: els, Off: off, Rev: idx%2 == 0})
				}
			}
		}
	}

	mp := c11Map.On(col, "rapid: maps of 0..8 string keys as map[string]any, map[string]int and ordered YAML maps, iterated by for and tablerow; oracle: the visited [key, value] pairs are exactly the map's entries as a multiset, forloop index/length consistent. Non-trivial: >= 2 entries; distinct by keys+representation+tag", false)
	col.Rapid(mp.Sub, env.PerShard(env.Pick(40000, 400000)), func(t *rapid.T) {
		keys := rapid.SliceOfNDistinct(rapid.StringMatching(`[a-z]{1,3}`), 0, 8, func(s string) string { return s }).Draw(t, "keys")
		c := &c11MapCase{Keys: keys, Rep: rapid.SampledFrom([]string{"", "typed", "mapslice"}).Draw(t, "rep"), Tag: rapid.SampledFrom([]string{"for", "tablerow"}).Draw(t, "tag")}
		if c.Rep == "typed" && len(keys) == 0 {
			c.Rep = ""
		}
		if v := mp.Run(c); v != nil {
			t.Fatalf("%s", v.Message)
		}
	})

	nest := c11Model.On(col, "rapid: random nestings of for/tablerow loops (depth <= 3) with conditionals, grouped and ungrouped cycles, break/continue, assigns, over arrays (random Go representation), ranges and one-entry maps; oracle: reference model (cycle round-robin per loop execution and group; jumps affect the innermost loop only). Non-trivial: specified expected output and at least one loop; distinct by template+bindings", false)
	prof := hx.FullProfile()
	prof.Tablerow, prof.Capture, prof.Comment, prof.Raw, prof.Case = true, false, false, false, false
	prof.MaxNodes, prof.LoopRecord = 16, true
	col.Rapid(nest.Sub, env.PerShard(env.Pick(150000, 1500000)), func(t *rapid.T) {
		p := hx.GenProgram(t, prof)
		for _, name := range []string{"a", "w"} {
			// typed slice / fixed array / generic; a Go range value is only promised to work as a
			// loop collection and filter input (covered by the grid), not for indexing
			var reps []string
			for _, r := range p.Binds[name].ArrReps() {
				if r != "range" {
					reps = append(reps, r)
				}
			}
			p.Binds[name].R = rapid.SampledFrom(reps).Draw(t, "rep"+name)
		}
		c := &progCase{P: p, Sp: hx.GenSpacing(t, "sp")}
		if v := nest.Run(c); v != nil {
			t.Fatalf("%s", v.Message)
		}
	})
}
