package props

import (
	"fmt"
	"strings"
	"testing"

	"pgregory.net/rapid"

	"verifharness/hx"
)

// ---- C12: assign/capture bind for the rest of the render; loop variables are restored ----

var c12Model = hx.Define("c12.model", func(c *progCase, s *hx.Sub) *hx.Violation {
	v, specified := modelVsImpl(c, s, "c12")
	if v != nil {
		return v
	}
	if specified && c12Interesting(c.P.Nodes) {
		s.NTKey(hx.Source(c.P.Nodes) + bindingsString(c.P.Binds))
	}
	if s.WantSample() {
		s.Sample(c.P.Describe())
	}
	return nil
})

// a variable is read after a shadowing loop, after the block that assigned it, or a capture is printed
func c12Interesting(nodes []*hx.N) bool {
	return (hasNode(nodes, "assign") || hasNode(nodes, "capture")) && (hasNode(nodes, "for") || hasNode(nodes, "if") || hasNode(nodes, "tablerow"))
}

// probes appends a read of every variable a program may have touched.
func probes() []*hx.N {
	var out []*hx.N
	for _, v := range []string{"v1", "v2", "v3", "n", "s", "c1", "c2", "i", "j", "it", "my-var", "ok?", "forloop"} {
		out = append(out, hx.Text("|"), hx.Obj(hx.Var(v)))
	}
	out = append(out, hx.Text("|"), hx.Obj(hx.Prop(hx.Var("lf"), "index")), hx.Text("/"), hx.Obj(hx.Prop(hx.Var("lf"), "length")))
	out = append(out, hx.Text("|"), hx.Obj(hx.Prop(hx.Var("forloop"), "index")), hx.Text("|"), hx.Obj(hx.Flt(hx.Var("a"), "join", hx.LStr(","))))
	return out
}

// ---- a name bound to a value that changes during the render (a Drop over live state), shadowed by a loop ----

// liveDrop presents the current value of a counter that the tick filter advances.
type liveDrop struct{ p *int }

func (d liveDrop) ToLiquid() any { return *d.p }

type c12LiveCase struct {
	Tag  string `json:"tag"`  // for | tablerow
	N    int    `json:"n"`    // iterations
	Body int    `json:"body"` // 0 empty, 1 break, 2 continue, 3 a nested loop shadowing the name again, 4 prints the loop variable
}

var c12LiveBodies = []string{"", "{% break %}", "{% continue %}", "{% for cnt in (7..8) %}{% endfor %}", "{{ cnt }}"}

var c12Live = hx.Define("c12.shadowed-live-value", func(c *c12LiveCase, s *hx.Sub) *hx.Violation {
	ticks := 0
	eng := newEngine(&ticks)
	body := c12LiveBodies[c.Body%len(c12LiveBodies)]
	src := fmt.Sprintf("{{ cnt }}{{ 0 | tick }}{{ cnt }}{%% %s cnt in (1..%d) %%}%s{%% end%s %%}|{{ 0 | tick }}{{ cnt }}", c.Tag, c.N, body, c.Tag)
	o := hx.RenderWith(eng, src, map[string]any{"cnt": liveDrop{&ticks}})
	if o.Panic != nil {
		return hx.V("panic@"+o.Panic.Site, "%s: %v", src, o.Panic)
	}
	if !o.OK() {
		return hx.V("c12:live-error", "%s failed: %v", src, o.Err)
	}
	// before the loop the name reads 0, then (one tick later) 1; after the loop and one more tick it reads 2:
	// the name is again bound to what it was bound to before the loop, a value that moves with the counter
	out := rowTags.ReplaceAllString(o.Out, "")
	pre, post, _ := strings.Cut(out, "|")
	if !strings.HasPrefix(pre, "001") || post != "02" {
		return hx.V("c12:not-restored-live", "%s with cnt bound to a Drop over a counter that the tick filter advances renders %q; expected 001...|02: after the loop the name again has the value it had before the loop (the Drop, whose value is then 2)", src, o.Out)
	}
	s.NT()
	if s.WantSample() {
		s.Sample(map[string]any{"template": src, "output": o.Out})
	}
	return nil
})

type c12CapCase struct {
	P  *hx.Program `json:"p"`
	Hy []bool      `json:"hy,omitempty"`
}

// capture equivalence: render(F) == render({% capture cv %}F{% endcapture %}{{ cv }})
var c12Capture = hx.Define("c12.capture-equivalence", func(c *c12CapCase, s *hx.Sub) *hx.Violation {
	toks := hx.Tokens(c.P.Nodes, nil)
	inner := hx.Spell(toks, hx.DefaultDelims, c.Hy)
	wrapped := "{% capture cv_ %}" + inner + "{% endcapture %}{{ cv_ }}"
	b := c.P.Binds.Realise()
	o1 := hx.RenderWith(newEngine(nil), inner, b)
	o2 := hx.RenderWith(newEngine(nil), wrapped, c.P.Binds.Realise())
	if o1.Panic != nil {
		return hx.V("panic@"+o1.Panic.Site, "%q: %v", inner, o1.Panic)
	}
	if o2.Panic != nil {
		return hx.V("panic@"+o2.Panic.Site, "%q: %v", wrapped, o2.Panic)
	}
	if !o1.Same(o2) {
		return hx.V("c12:capture-differs", "fragment %q renders %v\n   wrapped in capture and printed: %v", inner, o1, o2)
	}
	if o1.OK() && countNodes(c.P.Nodes) >= 3 && o1.Out != "" {
		s.NTKey(inner + bindingsString(c.P.Binds))
	}
	if o1.Err != nil {
		s.Class("both-fail")
	}
	if s.WantSample() {
		s.Sample(map[string]any{"fragment": inner, "output": o1.Out})
	}
	return nil
})

func TestC12(t *testing.T) {
	col := hx.NewCollector("C12")
	defer col.Finish()
	col.Corpus()
	env := col.Env

	model := c12Model.On(col, "rapid: well-formed programs interleaving assign, capture, for/tablerow (shadowing outer names and forloop; ended normally and by break), if/unless/case, cycle, followed by a read of every variable; oracle: reference model (flat per-render variable map, loop variable and forloop saved and restored). Non-trivial: expected output fully specified and the program assigns/captures and has a loop or conditional; distinct by template+bindings", false)
	prof := hx.FullProfile()
	prof.Tablerow, prof.LoopRecord, prof.Twins = true, true, true
	col.Rapid(model.Sub, env.PerShard(env.Pick(150000, 1500000)), func(t *rapid.T) {
		p := hx.GenProgram(t, prof)
		p.Nodes = append(p.Nodes, probes()...)
		c := &progCase{P: p, Sp: hx.GenSpacing(t, "sp")}
		if v := model.Run(c); v != nil {
			t.Fatalf("%s", v.Message)
		}
	})

	live := c12Live.On(col, "exhaustive: a name bound to a Drop over live state (its value is a counter that a filter advances) is read, the counter advances, it is read again, a for / tablerow loop over 0..2 items shadows the name (empty body, break, continue, a nested loop shadowing it again, a body printing the loop variable), the counter advances, the name is read: oracle 001...|02 - after the loop the name again has the value it had before. Distinct by construction", true)
	k := 0
	for _, tag := range []string{"for", "tablerow"} {
		for n := 0; n <= 2; n++ {
			for b := range c12LiveBodies {
				k++
				if env.Mine(k) {
					live.Run(&c12LiveCase{Tag: tag, N: n, Body: b})
				}
			}
		}
	}

	capt := c12Capture.On(col, "rapid: any self-contained fragment F from the general generator (block-balanced, no break/continue escaping F), with random whitespace-control hyphens; metamorphic oracle: render(F) == render({% capture cv %}F{% endcapture %}{{ cv }}), both fail or equal bytes. Non-trivial: >= 3 nodes, renders successfully to non-empty output; distinct by fragment+bindings", false)
	prof2 := hx.FullProfile()
	prof2.Tablerow, prof2.MapLoops, prof2.WSText = true, false, true
	col.Rapid(capt.Sub, env.PerShard(env.Pick(150000, 1500000)), func(t *rapid.T) {
		p := hx.GenProgram(t, prof2)
		c := &c12CapCase{P: p}
		if rapid.Bool().Draw(t, "hyphens") {
			c.Hy = rapid.SliceOfN(rapid.Bool(), 2, 40).Draw(t, "hy")
		}
		if v := capt.Run(c); v != nil {
			t.Fatalf("%s", v.Message)
		}
	})
}
