package props

import (
	"fmt"
	"os"
	"path/filepath"
	"strings"
	"testing"

	"pgregory.net/rapid"

	"verifharness/hx"
)

// ---- C12: assign/capture bind for the rest of the render; loop variables are restored ----

var c12Model = hx.Define("c12.model", func(c *progCase, s *hx.Sub) *hx.Violation {
	v, specified := modelVsImpl(c, s, "c12")
	if v != nil {
		return v
	}
	if specified && c12Interesting(c.P.Nodes) {
		s.NTKey(hx.Source(c.P.Nodes) + bindingsString(c.P.Binds))
	}
	if s.WantSample() {
		s.Sample(c.P.Describe())
	}
	return nil
})

// a variable is read after a shadowing loop, after the block that assigned it, or a capture is printed
func c12Interesting(nodes []*hx.N) bool {
	return (hasNode(nodes, "assign") || hasNode(nodes, "capture")) && (hasNode(nodes, "for") || hasNode(nodes, "if") || hasNode(nodes, "tablerow"))
}

// probes appends a read of every variable a program may have touched.
func probes() []*hx.N {
	var out []*hx.N
	for _, v := range []string{"v1", "v2", "v3", "n", "s", "c1", "c2", "i", "j", "it", "my-var", "ok?", "forloop"} {
		out = append(out, hx.Text("|"), hx.Obj(hx.Var(v)))
	}
	out = append(out, hx.Text("|"), hx.Obj(hx.Prop(hx.Var("lf"), "index")), hx.Text("/"), hx.Obj(hx.Prop(hx.Var("lf"), "length")))
	out = append(out, hx.Text("|"), hx.Obj(hx.Prop(hx.Var("forloop"), "index")), hx.Text("|"), hx.Obj(hx.Flt(hx.Var("a"), "join", hx.LStr(","))))
	return out
}

// ---- a name bound to a value that changes during the render (a Drop over live state), shadowed by a loop ----

// liveDrop presents the current value of a counter that the tick filter advances.
type liveDrop struct{ p *int }

func (d liveDrop) ToLiquid() any { return *d.p }

type c12LiveCase struct {
	Tag  string `json:"tag"`  // for | tablerow
	N    int    `json:"n"`    // iterations
	Body int    `json:"body"` // 0 empty, 1 break, 2 continue, 3 a nested loop shadowing the name again, 4 prints the loop variable
}

var c12LiveBodies = []string{"", "{% break %}", "{% continue %}", "{% for cnt in (7..8) %}{% endfor %}", "{{ cnt }}"}

var c12Live = hx.Define("c12.shadowed-live-value", func(c *c12LiveCase, s *hx.Sub) *hx.Violation {
	ticks := 0
	eng := newEngine(&ticks)
	body := c12LiveBodies[c.Body%len(c12LiveBodies)]
	src := fmt.Sprintf("{{ cnt }}{{ 0 | tick }}{{ cnt }}{%% %s cnt in (1..%d) %%}%s{%% end%s %%}|{{ 0 | tick }}{{ cnt }}", c.Tag, c.N, body, c.Tag)
	o := hx.RenderWith(eng, src, map[string]any{"cnt": liveDrop{&ticks}})
	if o.Panic != nil {
		return hx.V("panic@"+o.Panic.Site, "%s: %v", src, o.Panic)
	}
	if !o.OK() {
		return hx.V("c12:live-error", "%s failed: %v", src, o.Err)
	}
	// before the loop the name reads 0, then (one tick later) 1; after the loop and one more tick it reads 2:
	// the name is again bound to what it was bound to before the loop, a value that moves with the counter
	out := rowTags.ReplaceAllString(o.Out, "")
	pre, post, _ := strings.Cut(out, "|")
	if !strings.HasPrefix(pre, "001") || post != "02" {
		return hx.V("c12:not-restored-live", "%s with cnt bound to a Drop over a counter that the tick filter advances renders %q; expected 001...|02: after the loop the name again has the value it had before the loop (the Drop, whose value is then 2)", src, o.Out)
	}
	s.NT()
	if s.WantSample() {
		s.Sample(map[string]any{"template": src, "output": o.Out})
	}
	return nil
})

// ---- "visible ... in included templates": a name bound by assign or capture is read inside an included file ----

type c12IncCase struct {
	Name  string `json:"name"`  // the variable
	Bind  int    `json:"bind"`  // 0 assign, 1 capture
	Where int    `json:"where"` // 0 include at top level, 1 inside a loop, 2 after a loop that shadowed the name, 3 inside if
	Cache bool   `json:"cache"` // the included file exists only as cached source
}

var c12IncSeq int

var c12Inc = hx.Define("c12.visible-in-include", func(c *c12IncCase, s *hx.Sub) *hx.Violation {
	base := os.Getenv("VERIF_OUT")
	if base == "" {
		base = os.TempDir()
	}
	c12IncSeq++
	dir, err := os.MkdirTemp(base, fmt.Sprintf("c12i-%d-", c12IncSeq))
	if err != nil {
		return hx.V("harness-error", "mkdir: %v", err)
	}
	defer os.RemoveAll(dir)
	eng := newEngine(nil)
	inner := "[{{ " + c.Name + " }}]"
	if c.Cache {
		if _, perr := eng.ParseTemplateAndCache([]byte(inner), filepath.Join(dir, "inc.html"), 1); perr != nil {
			return hx.V("c12:include-parse", "%q registered as cached source: %v", inner, perr)
		}
	} else if err := os.WriteFile(filepath.Join(dir, "inc.html"), []byte(inner), 0o644); err != nil {
		return hx.V("harness-error", "write: %v", err)
	}
	bind := "{% assign " + c.Name + " = \"mine\" %}"
	if c.Bind == 1 {
		bind = "{% capture " + c.Name + " %}mi{{ \"ne\" }}{% endcapture %}"
	}
	inc := "{% include \"inc.html\" %}"
	var src, want string
	switch c.Where {
	case 0:
		src, want = bind+inc, "[mine]"
	case 1:
		if c.Name == "forloop" {
			// inside a loop the name forloop means the loop's record, in the included file as in the loop body
			s.Exclude()
			return nil
		}
		src, want = bind+"{% for zz in (1..2) %}"+inc+"{% endfor %}", "[mine][mine]"
	case 2:
		src, want = bind+"{% for "+c.Name+" in (1..2) %}{% endfor %}"+inc, "[mine]"
		if c.Name == "forloop" {
			// a loop variable called forloop: the statement does not say which of the two the body sees; after the loop
			// both are restored, so the expectation is the same
			src = bind + "{% for zz in (1..2) %}{% endfor %}" + inc
		}
	default:
		src, want = "{% if true %}"+bind+"{% endif %}{% if true %}"+inc+"{% endif %}", "[mine]"
	}
	o := hx.RenderAt(eng, src, filepath.Join(dir, "top.html"), 1, map[string]any{})
	if o.Panic != nil {
		return hx.V("panic@"+o.Panic.Site, "%s: %v", src, o.Panic)
	}
	if !o.OK() || o.Out != want {
		return hx.V("c12:not-visible-in-include", "%s with inc.html = %q renders %v; expected %q: a variable set by assign or capture is visible in included templates", src, inner, o, want)
	}
	s.NT()
	if s.WantSample() {
		s.Sample(map[string]any{"template": src, "inc.html": inner, "output": o.Out})
	}
	return nil
})

type c12CapCase struct {
	P  *hx.Program `json:"p"`
	Hy []bool      `json:"hy,omitempty"`
}

// capture equivalence: render(F) == render({% capture cv %}F{% endcapture %}{{ cv }})
var c12Capture = hx.Define("c12.capture-equivalence", func(c *c12CapCase, s *hx.Sub) *hx.Violation {
	toks := hx.Tokens(c.P.Nodes, nil)
	inner := hx.Spell(toks, hx.DefaultDelims, c.Hy)
	wrapped := "{% capture cv_ %}" + inner + "{% endcapture %}{{ cv_ }}"
	b := c.P.Binds.Realise()
	o1 := hx.RenderWith(newEngine(nil), inner, b)
	o2 := hx.RenderWith(newEngine(nil), wrapped, c.P.Binds.Realise())
	if o1.Panic != nil {
		return hx.V("panic@"+o1.Panic.Site, "%q: %v", inner, o1.Panic)
	}
	if o2.Panic != nil {
		return hx.V("panic@"+o2.Panic.Site, "%q: %v", wrapped, o2.Panic)
	}
	if !o1.Same(o2) {
		return hx.V("c12:capture-differs", "fragment %q renders %v\n   wrapped in capture and printed: %v", inner, o1, o2)
	}
	if o1.OK() && countNodes(c.P.Nodes) >= 3 && o1.Out != "" {
		s.NTKey(inner + bindingsString(c.P.Binds))
	}
	if o1.Err != nil {
		s.Class("both-fail")
	}
	if s.WantSample() {
		s.Sample(map[string]any{"fragment": inner, "output": o1.Out})
	}
	return nil
})

func TestC12(t *testing.T) {
	col := hx.NewCollector("C12")
	defer col.Finish()
	col.Corpus()
	env := col.Env

	model := c12Model.On(col, "rapid: well-formed programs interleaving assign, capture, for/tablerow (shadowing outer names and forloop; ended normally and by break), if/unless/case, cycle, followed by a read of every variable; oracle: reference model (flat per-render variable map, loop variable and forloop saved and restored). Non-trivial: expected output fully specified and the program assigns/captures and has a loop or conditional; distinct by template+bindings", false)
	prof := hx.FullProfile()
	prof.Tablerow, prof.LoopRecord, prof.Twins = true, true, true
	col.Rapid(model.Sub, env.PerShard(env.Pick(150000, 1500000)), func(t *rapid.T) {
		p := hx.GenProgram(t, prof)
		p.Nodes = append(p.Nodes, probes()...)
		c := &progCase{P: p, Sp: hx.GenSpacing(t, "sp")}
		if v := model.Run(c); v != nil {
			t.Fatalf("%s", v.Message)
		}
	})

	live := c12Live.On(col, "exhaustive: a name bound to a Drop over live state (its value is a counter that a filter advances) is read, the counter advances, it is read again, a for / tablerow loop over 0..2 items shadows the name (empty body, break, continue, a nested loop shadowing it again, a body printing the loop variable), the counter advances, the name is read: oracle 001...|02 - after the loop the name again has the value it had before. Distinct by construction", true)
	k := 0
	for _, tag := range []string{"for", "tablerow"} {
		for n := 0; n <= 2; n++ {
			for b := range c12LiveBodies {
				k++
				if env.Mine(k) {
					live.Run(&c12LiveCase{Tag: tag, N: n, Body: b})
				}
			}
		}
	}

	incl := c12Inc.On(col, "exhaustive over a list: a name (plain, hyphenated, ending in ?, and the names the tags themselves use: forloop, tablerowloop, include, page) is bound by assign or by capture and read inside an included file (on disk / cached source only) that is included at top level, inside a loop, after a loop that shadowed the name, inside an if; oracle: the fixed expected output. Distinct by construction", true)
	k = 0
	for _, name := range []string{"v1", "my-var", "ok?", "forloop", "tablerowloop", "include", "page", "site"} {
		for bindKind := 0; bindKind <= 1; bindKind++ {
			for where := 0; where <= 3; where++ {
				for _, cache := range []bool{false, true} {
					k++
					if env.Mine(k) {
						incl.Run(&c12IncCase{Name: name, Bind: bindKind, Where: where, Cache: cache})
					}
				}
			}
		}
	}

	capt := c12Capture.On(col, "rapid: any self-contained fragment F from the general generator (block-balanced, no break/continue escaping F), with random whitespace-control hyphens; metamorphic oracle: render(F) == render({% capture cv %}F{% endcapture %}{{ cv }}), both fail or equal bytes. Non-trivial: >= 3 nodes, renders successfully to non-empty output; distinct by fragment+bindings", false)
	prof2 := hx.FullProfile()
	prof2.Tablerow, prof2.MapLoops, prof2.WSText = true, false, true
	col.Rapid(capt.Sub, env.PerShard(env.Pick(150000, 1500000)), func(t *rapid.T) {
		p := hx.GenProgram(t, prof2)
		c := &c12CapCase{P: p}
		if rapid.Bool().Draw(t, "hyphens") {
			c.Hy = rapid.SliceOfN(rapid.Bool(), 2, 40).Draw(t, "hy")
		}
		if v := capt.Run(c); v != nil {
			t.Fatalf("%s", v.Message)
		}
	})
}
