package props

import (
	"fmt"
	"strings"
	"testing"
	"unicode"

	"github.com/osteele/liquid"
	"pgregory.net/rapid"

	"verifharness/hx"
)

// ---- C13: whitespace-control hyphens strip exactly the adjacent literal whitespace ----

type c13Case struct {
	P     *hx.Program `json:"p"`
	Hy    []bool      `json:"hy"`              // two flags (left, right) per tag/object token, in order
	Tight []bool      `json:"tight,omitempty"` // per tag/object token: no padding between delimiter/hyphen and content
	Alt   int         `json:"alt,omitempty"`   // 0: default delimiters; 1, 2: an engine with delimiters of its own, of unequal lengths (C19: equivalent)
}

var c13Delims = []hx.Delims{hx.DefaultDelims, {OL: "{{{", OR: "}}}", TL: "{%", TR: "%}"}, {OL: "<<", OR: ">>", TL: "<?lq", TR: "?>"}}

func c13Engine(alt int) (*liquid.Engine, hx.Delims) {
	e := newEngine(nil)
	d := c13Delims[alt%len(c13Delims)]
	if alt%len(c13Delims) != 0 {
		e.Delims(d.OL, d.OR, d.TL, d.TR)
	}
	return e, d
}

func stripWS(s string) string {
	return strings.Map(func(r rune) rune {
		if unicode.IsSpace(r) {
			return -1
		}
		return r
	}, s)
}

// obtainable reports whether b can be obtained from a by deleting whitespace characters only.
func obtainable(a, b string) bool {
	ra, rb := []rune(a), []rune(b)
	j := 0
	for _, r := range ra {
		if j < len(rb) && rb[j] == r {
			j++
			continue
		}
		if !unicode.IsSpace(r) {
			return false
		}
	}
	return j == len(rb)
}

// c13Strong builds, when every present hyphen faces literal text or the template
// boundary, the hyphen-free tokens with exactly that adjacent whitespace deleted.
func c13Strong(toks []hx.Tok, hy []bool) ([]hx.Tok, bool, bool) {
	out := append([]hx.Tok{}, toks...)
	k := 0
	bites := false
	for i, t := range toks {
		if t.Kind == hx.TText {
			continue
		}
		hl, hr := false, false
		if 2*k+1 < len(hy) {
			hl, hr = hy[2*k], hy[2*k+1]
		}
		k++
		if hl {
			if i > 0 {
				p := toks[i-1]
				if p.Kind == hx.TText && p.Raw {
					// the inner side of endraw / endcomment: the body is literal text that is emitted verbatim
					// (raw, C05) or not at all (comment), so this hyphen changes nothing - in particular
					// nothing outside the block
					goto right
				}
				if p.Kind != hx.TText {
					return nil, false, false // faces another tag
				}
				trimmed := strings.TrimRightFunc(out[i-1].Body, unicode.IsSpace)
				if trimmed != out[i-1].Body {
					bites = true
				}
				out[i-1].Body = trimmed
			}
		}
	right:
		if hr {
			if i+1 < len(toks) {
				n := toks[i+1]
				if n.Kind == hx.TText && n.Raw {
					continue // the inner side of raw / comment: no effect
				}
				if n.Kind != hx.TText {
					return nil, false, false
				}
				trimmed := strings.TrimLeftFunc(out[i+1].Body, unicode.IsSpace)
				if trimmed != out[i+1].Body {
					bites = true
				}
				out[i+1].Body = trimmed
			}
		}
	}
	return out, true, bites
}

var c13Hyphens = hx.Define("c13.hyphens", func(c *c13Case, s *hx.Sub) *hx.Violation {
	toks := hx.MergeText(hx.Tokens(c.P.Nodes, nil))
	_, delims := c13Engine(c.Alt)
	engine := func() *liquid.Engine { e, _ := c13Engine(c.Alt); return e }
	plain := hx.SpellTight(toks, delims, nil, c.Tight)
	hyph := hx.SpellTight(toks, delims, c.Hy, c.Tight)
	b := c.P.Binds
	o0 := hx.RenderWith(engine(), plain, b.Realise())
	o1 := hx.RenderWith(engine(), hyph, b.Realise())
	for _, o := range []hx.Outcome{o0, o1} {
		if o.Panic != nil {
			return hx.V("panic@"+o.Panic.Site, "%q: %v", hyph, o.Panic)
		}
	}
	if (o0.Err == nil) != (o1.Err == nil) {
		return hx.V("c13:error-differs", "%q renders %v but with hyphens %q renders %v", plain, o0, hyph, o1)
	}
	if o0.Err != nil {
		s.Class("both-fail")
		return nil
	}
	// (0) "a template without hyphens loses nothing": the hyphen-free spelling renders what the reference
	// interpreter (which knows no whitespace control at all) gives, white space included
	if m := hx.NewModel(b.Logical()); true {
		if want, st := m.Render(c.P.Nodes); st == hx.StOK {
			got := o0.Out
			if hasNode(c.P.Nodes, "tablerow") {
				got = rowTags.ReplaceAllString(got, "")
			}
			if got != want {
				return hx.V("c13:hyphen-free-differs", "%q (no whitespace-control hyphen in it) renders %q; the reference interpreter gives %q", plain, o0.Out, want)
			}
			s.Class("hyphen-free-checked")
		}
	}
	// (A) equal after deleting all whitespace
	if stripWS(o0.Out) != stripWS(o1.Out) {
		return hx.V("c13:non-whitespace-changed", "%q renders %q; with hyphens %q renders %q: hyphens must never remove anything but whitespace", plain, o0.Out, hyph, o1.Out)
	}
	// (B) obtainable by deleting whitespace only
	if !obtainable(o0.Out, o1.Out) {
		return hx.V("c13:not-a-deletion", "%q renders %q; with hyphens %q renders %q, which is not obtainable by deleting whitespace", plain, o0.Out, hyph, o1.Out)
	}
	// (C) every hyphen faces literal text: exactly that adjacent whitespace is removed
	if st, ok, bites := c13Strong(toks, c.Hy); ok {
		want := hx.RenderWith(engine(), hx.SpellTight(st, delims, nil, c.Tight), b.Realise())
		if !want.OK() || want.Out != o1.Out {
			return hx.V("c13:adjacent-whitespace", "%q with %v renders %q\n   but the same template with the hyphens dropped and the adjacent literal whitespace deleted, %q, renders %v", hyph, b.Logical(), o1.Out, hx.Spell(st, delims, nil), want)
		}
		s.Class("strong-relation")
		if bites {
			s.NTKey(hyph + bindingsString(b))
		}
	} else {
		s.Class("weak-relations-only")
		if o0.Out != o1.Out {
			s.NTKey(hyph + bindingsString(b))
		}
	}
	if s.WantSample() {
		s.Sample(map[string]any{"template": hyph, "without_hyphens": o0.Out, "with_hyphens": o1.Out})
	}
	return nil
})

func TestC13(t *testing.T) {
	col := hx.NewCollector("C13")
	defer col.Finish()
	col.Corpus()
	env := col.Env

	chk := c13Hyphens.On(col, "rapid: programs over objects, assign, if/elsif/else, unless, case/when, for/tablerow with else, break/continue, cycle, capture, comment and raw blocks whose text tokens are every mix of spaces, tabs, newlines and non-whitespace (incl. whitespace-only), and whose values may start or end with whitespace; each of the 2k delimiter sides is a hyphen slot: all 2^(2k) subsets when 2k <= 10, sampled subsets otherwise; a fifth of the programs run on an engine configured with delimiters of unequal lengths ({{{ }}} {% %}, << >> <?lq ?>). All renders by the implementation: (A) outputs with and without hyphens are equal after deleting all whitespace, both fail or both succeed; (B) the hyphenated output is obtainable from the plain one by deleting whitespace only; (C) when every hyphen faces a literal text token or the template boundary (inner sides of raw/comment excluded) the output equals that of the template with hyphens dropped and exactly that adjacent whitespace deleted. Non-trivial: a hyphen faces text that has whitespace on that side (C), or the outputs differ; distinct by (template, subset, bindings)", false)
	prof := hx.FullProfile()
	prof.Tablerow, prof.WSText, prof.MaxNodes, prof.CapturePrintOnly, prof.LongText = true, true, 8, true, true
	col.Rapid(chk.Sub, env.PerShard(env.Pick(10000, 150000)), func(t *rapid.T) {
		p := hx.GenProgram(t, prof)
		// values with white space at their edges, next to hyphenated tags
		p.Binds["s"] = hx.SStr(rapid.SampledFrom([]string{"  s  ", "v", " lead", "trail \n", "\t", "", "déjà", "à ", "\u00a0nb"}).Draw(t, "sval"))
		p.Binds["u"] = hx.SStr(rapid.SampledFrom([]string{" u ", "w\n", ""}).Draw(t, "uval"))
		// objects whose expression begins with a minus sign, with white space before them
		if rapid.IntRange(0, 3).Draw(t, "neg") == 0 {
			at := rapid.IntRange(0, len(p.Nodes)).Draw(t, "negat")
			neg := []*hx.N{hx.Text(rapid.SampledFrom([]string{"a  ", " \n\t", "x"}).Draw(t, "negtext")), hx.Obj(hx.Lit(rapid.SampledFrom([]*hx.Spec{hx.SInt(-1), hx.SFloat(-2.5), hx.SInt(-30)}).Draw(t, "neglit"))), hx.Text("  b")}
			p.Nodes = append(p.Nodes[:at:at], append(neg, p.Nodes[at:]...)...)
		}
		k := hx.CountTags(hx.Tokens(p.Nodes, nil))
		if k == 0 {
			return
		}
		// a fifth of the programs run on an engine with delimiters of its own; "Tight" spelling stays with the defaults
		alt := 0
		if rapid.IntRange(0, 4).Draw(t, "alt") == 2 {
			alt = rapid.IntRange(1, 2).Draw(t, "altset")
		}
		var tight []bool
		if alt == 0 && rapid.IntRange(0, 2).Draw(t, "tight") == 0 {
			tight = rapid.SliceOfN(rapid.Bool(), k, k).Draw(t, "tightflags")
		}
		if 2*k <= 10 {
			for mask := 1; mask < 1<<(2*k); mask++ {
				hy := make([]bool, 2*k)
				for i := range hy {
					hy[i] = mask&(1<<i) != 0
				}
				if v := chk.Run(&c13Case{P: p, Hy: hy, Tight: tight, Alt: alt}); v != nil {
					t.Fatalf("%s", v.Message)
				}
			}
			chk.Sub.Class("all-subsets")
			return
		}
		chk.Sub.Class("sampled-subsets")
		for n := 0; n < 24; n++ {
			hy := rapid.SliceOfN(rapid.Bool(), 2*k, 2*k).Draw(t, fmt.Sprintf("hy%d", n))
			if n%3 == 0 { // sparse subsets make the strong relation applicable more often
				for i := range hy {
					hy[i] = hy[i] && rapid.IntRange(0, 3).Draw(t, "sparse") == 0
				}
			}
			if v := chk.Run(&c13Case{P: p, Hy: hy, Tight: tight, Alt: alt}); v != nil {
				t.Fatalf("%s", v.Message)
			}
		}
	})
}
