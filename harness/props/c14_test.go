package props

import (
	"fmt"
	"os"
	"path"
	"path/filepath"
	"sort"
	"strings"
	"testing"

	"github.com/osteele/liquid"
	"pgregory.net/rapid"

	"verifharness/hx"
)

// ---- C14: include renders the named file (or cached source) with the current variables ----

// A template is a list of pieces: Liquid text without includes, and include tags.
type c14Piece struct {
	Text   string `json:"text,omitempty"`
	Target string `json:"target,omitempty"` // path relative to the top template's directory
	Style  int    `json:"style,omitempty"`  // how the argument is spelled
}

type c14File struct {
	Name            string     `json:"name"`
	Disk            []c14Piece `json:"disk,omitempty"` // content on disk (nil = not on disk)
	Cache           []c14Piece `json:"cache,omitempty"`
	OnDisk, InCache bool
	EmptyDisk       bool `json:"emptydisk,omitempty"` // a zero-byte file on disk
	Removed         bool `json:"removed,omitempty"`   // on disk when the source is registered, deleted before the render
	Spell           int  `json:"spell,omitempty"`     // how the path given to ParseTemplateAndCache is spelled (1: dir/./name, 2: dir//name, 3: dir/zz/../name)
}

// regPath is the path a cached source is registered under: the file's path, not always in its shortest spelling
func (f c14File) regPath(dir string) string {
	switch f.Spell {
	case 1:
		return dir + "/./" + f.Name
	case 2:
		return dir + "//" + f.Name
	case 3:
		return dir + "/zz/../" + f.Name
	}
	return filepath.Join(dir, f.Name)
}

type c14Case struct {
	Top   []c14Piece        `json:"top"`
	Files []c14File         `json:"files"`
	Vars  map[string]string `json:"vars"` // string bindings used by variable-style arguments
	N     int               `json:"n"`
	Late  bool              `json:"late,omitempty"` // ParseTemplateAndCache registrations happen after the top template was parsed
	// a second top-level template, in the sub-directory d1, rendered on the same engine after the first;
	// its targets (and those of everything it includes) are relative to d1
	Top2 []c14Piece `json:"top2,omitempty"`
}

// c14Resolve gives the root-relative name of target for a render whose top template lives in base.
func c14Resolve(base, target string) string { return path.Clean(path.Join(base, target)) }

func (c *c14Case) file(name string) *c14File {
	for i := range c.Files {
		if c.Files[i].Name == name {
			return &c.Files[i]
		}
	}
	return nil
}

// includeTag spells the include of target in the given style; vars collects bindings it needs.
func includeTag(target string, style int, vars map[string]string) string {
	base, ext := target, ""
	if i := strings.LastIndex(target, "."); i > 0 {
		base, ext = target[:i], target[i:]
	}
	switch style {
	case 1:
		return "{% include '" + target + "' %}"
	case 2:
		v := "f_" + strings.NewReplacer("/", "_", ".", "_", "-", "_").Replace(target)
		vars[v] = target
		return "{% include " + v + " %}"
	case 3:
		return "{% assign inc_t = \"" + target + "\" %}{% include inc_t %}"
	case 4: // a filtered expression that starts and ends with the same kind of quote
		return "{% include \"" + base + "\" | append: \"" + ext + "\" %}"
	case 5:
		v := "ext_" + strings.TrimPrefix(ext, ".")
		vars[v] = ext
		return "{% include '" + base + "' | append: " + v + " %}"
	case 6: // a filter with two arguments: the expression has commas of its own
		return "{% include \"" + strings.ReplaceAll(target, ".", "§") + "\" | replace: \"§\", \".\" %}"
	case 7: // ... and a name with a comma in a string literal that a filter removes again
		return "{% include \"," + target + ",\" | remove: \",\" %}"
	}
	return "{% include \"" + target + "\" %}"
}

func c14Source(ps []c14Piece, vars map[string]string) string {
	var sb strings.Builder
	for _, p := range ps {
		if p.Target == "" {
			sb.WriteString(p.Text)
		} else {
			sb.WriteString(includeTag(p.Target, p.Style, vars))
		}
	}
	return sb.String()
}

// effective returns the content the statement says an include of name uses: the file on disk if there is one, else the cached source.
func (c *c14Case) effective(name string) ([]c14Piece, bool) {
	f := c.file(name)
	if f == nil {
		return nil, false
	}
	if f.OnDisk && !f.Removed {
		return f.Disk, true
	}
	if f.InCache {
		return f.Cache, true
	}
	return nil, false
}

// inline replaces every include, recursively, by the content that is used; ok=false when some include cannot be resolved.
func (c *c14Case) inline(ps []c14Piece, depth int, vars map[string]string, base string) (string, bool) {
	var sb strings.Builder
	for _, p := range ps {
		if p.Target == "" {
			sb.WriteString(p.Text)
			continue
		}
		if p.Style == 3 {
			sb.WriteString("{% assign inc_t = \"" + p.Target + "\" %}")
		}
		content, ok := c.effective(c14Resolve(base, p.Target))
		if !ok || depth > 8 {
			return "", false
		}
		inner, ok := c.inline(content, depth+1, vars, base)
		if !ok {
			return "", false
		}
		// "inserts exactly the output that rendering that file's content directly would give": the content is
		// rendered on its own (whitespace control at its edges stays inside it) and its output is inserted as a value
		c14Site++
		fmt.Fprintf(&sb, "{%% capture inc_%d %%}%s{%% endcapture %%}{{ inc_%d }}", c14Site, inner, c14Site)
	}
	return sb.String(), true
}

var c14Seq int
var c14Site int

var c14Graph = hx.Define("c14.graph", func(c *c14Case, s *hx.Sub) *hx.Violation {
	base := os.Getenv("VERIF_OUT")
	if base == "" {
		base = os.TempDir()
	}
	c14Seq++
	tmp, err := os.MkdirTemp(base, fmt.Sprintf("c14-%d-", c14Seq))
	if err != nil {
		return hx.V("harness-error", "mkdir: %v", err)
	}
	defer os.RemoveAll(tmp)
	// the top template's directory is one level down, so that names may lead out of it ("../up.html")
	dir := filepath.Join(tmp, "site")
	if err := os.MkdirAll(filepath.Join(dir, "d1"), 0o755); err != nil {
		return hx.V("harness-error", "mkdir: %v", err)
	}
	vars := map[string]string{}
	for k, v := range c.Vars {
		vars[k] = v
	}
	eng := newEngine(nil)
	// lay out files; collect variable bindings needed by any spelling
	for _, f := range c.Files {
		if f.OnDisk {
			p := filepath.Join(dir, f.Name)
			if err := os.MkdirAll(filepath.Dir(p), 0o755); err != nil {
				return hx.V("harness-error", "mkdir: %v", err)
			}
			if err := os.WriteFile(p, []byte(c14Source(f.Disk, vars)), 0o644); err != nil {
				return hx.V("harness-error", "write: %v", err)
			}
		}
		if f.InCache && !c.Late {
			if _, perr := eng.ParseTemplateAndCache([]byte(c14Source(f.Cache, vars)), f.regPath(dir), 1); perr != nil {
				return hx.V("harness-error", "cached source does not parse: %v", perr)
			}
		}
		if f.InCache && c.Late {
			_ = c14Source(f.Cache, vars) // collect the variable bindings the cached spelling needs
		}
	}
	top := c14Source(c.Top, vars)
	top2 := c14Source(c.Top2, vars)
	binds := func() map[string]any {
		b := map[string]any{"n": c.N, "a": []any{1, 2}, "s": "str"}
		for k, v := range vars {
			b[k] = v
		}
		return b
	}
	topPath := filepath.Join(dir, "top.html")
	// files that were on disk when their source was registered and are gone when the template is rendered
	removeFlagged := func() {
		for _, f := range c.Files {
			if f.Removed && f.OnDisk {
				_ = os.Remove(filepath.Join(dir, f.Name))
			}
		}
	}
	var got hx.Outcome
	if c.Late {
		// the includer is parsed first; sources are registered afterwards and must still be found at render time
		got.Panic = hx.Guard(func() {
			tpl, perr := eng.ParseTemplateLocation([]byte(top), topPath, 1)
			if perr != nil {
				got.Err, got.ParseErr = perr, true
				return
			}
			for _, f := range c.Files {
				if f.InCache {
					if _, perr := eng.ParseTemplateAndCache([]byte(c14Source(f.Cache, vars)), f.regPath(dir), 1); perr != nil {
						got.Err = perr
						return
					}
				}
			}
			removeFlagged()
			out, rerr := tpl.RenderString(binds())
			got.Out, got.Err = out, rerr
		})
	} else {
		removeFlagged()
		got = hx.RenderAt(eng, top, topPath, 1, binds())
	}
	if got.Panic != nil {
		return hx.V("panic@"+got.Panic.Site, "%q: %v", top, got.Panic)
	}
	desc := func() string {
		var sb strings.Builder
		fmt.Fprintf(&sb, "top.html = %q", top)
		if len(c.Top2) > 0 {
			fmt.Fprintf(&sb, "\n     d1/top2.html (rendered afterwards on the same engine) = %q", top2)
		}
		for _, f := range c.Files {
			fmt.Fprintf(&sb, "\n     %s:", f.Name)
			if f.OnDisk {
				fmt.Fprintf(&sb, " disk=%q", c14Source(f.Disk, map[string]string{}))
			}
			if f.InCache {
				fmt.Fprintf(&sb, " cache=%q", c14Source(f.Cache, map[string]string{}))
			}
			if !f.OnDisk && !f.InCache {
				sb.WriteString(" missing")
			}
		}
		return sb.String()
	}
	// the second top-level template: same engine, other directory
	if len(c.Top2) > 0 {
		top2Path := filepath.Join(dir, "d1", "top2.html")
		got2 := hx.RenderAt(eng, top2, top2Path, 1, binds())
		if got2.Panic != nil {
			return hx.V("panic@"+got2.Panic.Site, "%q: %v", top2, got2.Panic)
		}
		if inl2, ok := c.inline(c.Top2, 0, vars, "d1"); ok {
			want2 := hx.RenderAt(newEngine(nil), inl2, top2Path, 1, binds())
			if !got2.Same(want2) {
				return hx.V("c14:differs-from-inlined", "%s\n   d1/top2.html renders %v\n   but with every include replaced by the content that is to be used (names relative to d1), %q, it renders %v", desc(), got2, inl2, want2)
			}
			if got2.OK() {
				s.Class("second-top-template")
			}
		} else if got2.Err == nil {
			return hx.V("c14:missing-file-no-error", "%s\n   d1/top2.html rendered %q although an included file exists neither on disk nor in the cache", desc(), got2.Out)
		}
	}
	inl, ok := c.inline(c.Top, 0, vars, ".")
	if !ok {
		if got.Err == nil {
			return hx.V("c14:missing-file-no-error", "%s\n   rendered %q although an included file exists neither on disk nor in the cache", desc(), got.Out)
		}
		if got.Out != "" {
			return hx.V("c14:output-with-error", "%s\n   returned output %q with error %v", desc(), got.Out, got.Err)
		}
		s.Class("missing-file")
		s.NTKey(desc())
		return nil
	}
	want := hx.RenderAt(newEngine(nil), inl, topPath, 1, binds())
	if !got.Same(want) {
		return hx.V("c14:differs-from-inlined", "%s\n   renders %v\n   but with every include replaced by the content that is to be used, %q, it renders %v", desc(), got, inl, want)
	}
	if got.Err != nil {
		s.Class("error-inside-included")
		if got.Out != "" {
			return hx.V("c14:output-with-error", "%s\n   returned output %q with error %v", desc(), got.Out, got.Err)
		}
	}
	nested, cached, both := false, false, false
	for _, f := range c.Files {
		if strings.Contains(f.Name, "/") {
			nested = true
		}
		if strings.HasPrefix(f.Name, "../") && strings.Contains(top, f.Name) {
			s.Class("target-above-the-directory")
		}
		if f.InCache && !f.OnDisk {
			cached = true
		}
		if f.InCache && f.OnDisk {
			both = true
		}
	}
	if nested {
		s.Class("nested-directory")
	}
	if cached {
		s.Class("cache-only")
	}
	if both {
		s.Class("disk-and-cache")
	}
	if got.OK() && (nested || cached || both) {
		s.NTKey(desc())
	}
	if s.WantSample() {
		s.Sample(map[string]any{"layout": desc(), "output": got.String()})
	}
	return nil
})

// non-string arguments are errors

type c14ArgCase struct {
	Arg string `json:"arg"`
}

var c14BadArg = hx.Define("c14.non-string-argument", func(c *c14ArgCase, s *hx.Sub) *hx.Violation {
	src := "x{% include " + c.Arg + " %}y"
	o := hx.RenderAt(newEngine(nil), src, "/nonexistent-dir/top.html", 1, map[string]any{"n": 3, "a": []any{"f.html"}, "m": map[string]any{"k": 1}, "b": true})
	if o.Panic != nil {
		return hx.V("panic@"+o.Panic.Site, "%s: %v", src, o.Panic)
	}
	if o.Err == nil || o.Out != "" {
		return hx.V("c14:non-string-accepted", "%s rendered %q, %v; a non-string include argument is an error", src, o.Out, o.Err)
	}
	s.NT()
	if s.WantSample() {
		s.Sample(map[string]any{"template": src, "error": o.Err.Error()})
	}
	return nil
})

// "any error inside the included template fails the render": a break or continue that is outside every loop of
// the included template is such an error (rendering that file directly fails), also when the include tag stands in a loop

type c14StrayCase struct {
	Inner string `json:"inner"` // content of the included file
	Outer string `json:"outer"` // includer; %INC% marks the include tag
	Cache bool   `json:"cache"` // the file exists only as cached source
}

var c14Stray = hx.Define("c14.error-inside-included", func(c *c14StrayCase, s *hx.Sub) *hx.Violation {
	base := os.Getenv("VERIF_OUT")
	if base == "" {
		base = os.TempDir()
	}
	c14Seq++
	dir, err := os.MkdirTemp(base, fmt.Sprintf("c14s-%d-", c14Seq))
	if err != nil {
		return hx.V("harness-error", "mkdir: %v", err)
	}
	defer os.RemoveAll(dir)
	eng := newEngine(nil)
	if c.Cache {
		if _, perr := eng.ParseTemplateAndCache([]byte(c.Inner), filepath.Join(dir, "inner.html"), 1); perr != nil {
			s.Exclude()
			return nil
		}
	} else if err := os.WriteFile(filepath.Join(dir, "inner.html"), []byte(c.Inner), 0o644); err != nil {
		return hx.V("harness-error", "write: %v", err)
	}
	binds := map[string]any{"a": []any{1, 2, 3}, "n": 0}
	render := func(src, name string) (out string, rerr error, pi *hx.PanicInfo) {
		pi = hx.Guard(func() {
			tpl, perr := eng.ParseTemplateLocation([]byte(src), filepath.Join(dir, name), 1)
			if perr != nil {
				rerr = perr
				return
			}
			var o []byte
			var e liquid.SourceError
			o, e = tpl.Render(binds)
			out = string(o)
			if e != nil {
				rerr = e
			}
		})
		return
	}
	// the premise: rendering the file's content directly fails
	if _, derr, pi := render(c.Inner, "direct.html"); pi != nil || derr == nil {
		s.Exclude()
		return nil
	}
	src := strings.ReplaceAll(c.Outer, "%INC%", `{% include "inner.html" %}`)
	out, rerr, pi := render(src, "top.html")
	if pi != nil {
		return hx.V("panic@"+pi.Site, "%q including %q: %v", src, c.Inner, pi)
	}
	if rerr == nil {
		return hx.V("c14:inner-error-lost", "%q with inner.html = %q rendered %q without an error, although rendering inner.html directly fails", src, c.Inner, out)
	}
	if out != "" {
		return hx.V("c14:output-with-error", "%q with inner.html = %q returned output %q together with %v", src, c.Inner, out, rerr)
	}
	s.NT()
	if s.WantSample() {
		s.Sample(map[string]any{"includer": src, "inner.html": c.Inner, "error": rerr.Error()})
	}
	return nil
})

// "Source registered through ParseTemplateAndCache is used when no such file exists": also when the reason
// is another than ENOENT, whatever the caller does with its buffer afterwards; and a string is a string
// whatever its Go type

type c14CacheCase struct {
	Kind string `json:"kind"`
}

var c14Cache = hx.Define("c14.cache-corners", func(c *c14CacheCase, s *hx.Sub) *hx.Violation {
	base := os.Getenv("VERIF_OUT")
	if base == "" {
		base = os.TempDir()
	}
	c14Seq++
	dir, err := os.MkdirTemp(base, fmt.Sprintf("c14c-%d-", c14Seq))
	if err != nil {
		return hx.V("harness-error", "mkdir: %v", err)
	}
	defer os.RemoveAll(dir)
	eng := newEngine(nil)
	name, binds := "part.html", map[string]any{"x": 1}
	src := `{% include "part.html" %}`
	switch c.Kind {
	case "under-a-regular-file": // open fails with ENOTDIR: no such file exists
		name = "file.html/under.html"
		src = `{% include "file.html/under.html" %}`
		if err := os.WriteFile(filepath.Join(dir, "file.html"), []byte("a regular file"), 0o644); err != nil {
			return hx.V("harness-error", "write: %v", err)
		}
	case "name-too-long": // ENAMETOOLONG
		name = strings.Repeat("n", 300) + ".html"
		src = `{% include "` + name + `" %}`
	case "buffer-reused", "plain":
	case "named-string-argument", "pointer-to-named-string", "named-string-in-array":
		src = map[string]string{"named-string-argument": `{% include n %}`, "pointer-to-named-string": `{% include pn %}`, "named-string-in-array": `{% include ns[0] %}`}[c.Kind]
		n := hx.NamedString("part.html")
		binds["n"], binds["pn"], binds["ns"] = n, &n, []any{n}
	}
	buf := []byte("[cached {{ x }}]")
	if _, perr := eng.ParseTemplateAndCache(buf, filepath.Join(dir, name), 1); perr != nil {
		return hx.V("harness-error", "cached source does not parse: %v", perr)
	}
	if c.Kind == "buffer-reused" {
		copy(buf, "[XXXXXX {{ x }}]") // the caller reads the next file into the same buffer
	}
	var out string
	var rerr error
	if pi := hx.Guard(func() {
		tpl, perr := eng.ParseTemplateLocation([]byte(src), filepath.Join(dir, "top.html"), 1)
		if perr != nil {
			rerr = perr
			return
		}
		o, e := tpl.Render(binds)
		out = string(o)
		if e != nil {
			rerr = e
		}
	}); pi != nil {
		return hx.V("panic@"+pi.Site, "%s: %v", c.Kind, pi)
	}
	if rerr != nil || out != "[cached 1]" {
		return hx.V("c14:cache-corner:"+c.Kind, "%s: %s with the source [cached {{ x }}] registered for %s (and no such file on disk) rendered %q, %v; expected [cached 1]", c.Kind, src, name, out, rerr)
	}
	s.NT()
	return nil
})

func TestC14(t *testing.T) {
	col := hx.NewCollector("C14")
	defer col.Finish()
	col.Corpus()
	env := col.Env

	cc := c14Cache.On(col, "exhaustive over a list: cached source for a path under a regular file (ENOTDIR) and for a name too long for the file system (ENAMETOOLONG) - no such file exists; the caller overwrites the buffer it registered; the include argument is a string of a named Go type, a pointer to one, an element of an array. Oracle: the cached source is rendered. Distinct by construction", true)
	for i, k := range []string{"plain", "under-a-regular-file", "name-too-long", "buffer-reused", "named-string-argument", "pointer-to-named-string", "named-string-in-array"} {
		if env.Mine(i) {
			cc.Run(&c14CacheCase{Kind: k})
		}
	}

	st := c14Stray.On(col, "exhaustive over a list: included files whose content fails when rendered directly (break / continue outside a loop, also nested in if and capture - not cycle, which works off the includer's forloop variable; a filter error; an unknown filter; a missing nested include) x includers with the include tag at top level, inside for, tablerow, nested loops, if inside a loop, capture inside a loop x file on disk / cached source. Oracle: the render fails with a SourceError and returns no output. Distinct by construction", true)
	{
		i := 0
		for _, inner := range []string{"a{% break %}b", "a{% continue %}b", "{% if true %}{% break %}{% endif %}", "{% capture x %}{% continue %}{% endcapture %}", "{{ 1 | divided_by: n }}", "{{ 1 | nosuchfilter }}", "x{% include \"nowhere.html\" %}", "{% for i in a %}{{ i }}{% endfor %}{% break %}"} {
			for _, outer := range []string{"%INC%", "{% for i in a %}{{ i }}%INC%{% endfor %}", "{% tablerow i in a %}{{ i }}%INC%{% endtablerow %}", "{% for i in a %}{% for j in a %}%INC%{% endfor %}{% endfor %}", "{% for i in a %}{% if i == 2 %}%INC%{% endif %}{{ i }}{% endfor %}", "{% for i in a %}{% capture c %}%INC%{% endcapture %}{{ c }}{% endfor %}"} {
				for _, cache := range []bool{false, true} {
					i++
					if env.Mine(i) {
						st.Run(&c14StrayCase{Inner: inner, Outer: outer, Cache: cache})
					}
				}
			}
		}
	}

	g := c14Graph.On(col, "rapid: acyclic include graphs (chains up to depth 4 in the top template's directory, leaves in nested sub-directories and above the directory (../up.html), the same base name in several directories with distinct content; for a third of the cases a second top-level template in the sub-directory d1 is rendered on the same engine afterwards and reaches the same files under other relative names) laid out in a fresh temporary directory per case; every file is independently on disk, only registered through ParseTemplateAndCache, both with different content, zero bytes on disk with cached source, or missing; include arguments spelled as double/single-quoted literals, bound variables, variables assigned earlier in the render and filtered expressions; bodies print bound and includer-assigned variables, loop and branch. Metamorphic oracle: render(T) = render(T with every include replaced, recursively, by the content the statement selects: disk over cache), same path and bindings; a missing file fails the render with no output; an error inside an included template fails both. Non-trivial: an include resolved from a nested directory, from the cache, or with disk and cache disagreeing; distinct by layout", false)
	texts := []string{"t", " [{{ n }}] ", "{{ s | upcase }}", "{% assign pv = n | plus: 1 %}{{ pv }}", "{% if n == 1 %}one{% else %}other{% endif %}", "{% for q in a %}{{ q }},{% endfor %}", "{{ shared }}", "\n", "{% assign shared = \"set-by-includer\" %}", "{{ 1 | divided_by: n }}", "20% off %d %s%%", "{% raw %}{% if x %}{% endraw %}", "{{ lv }}/{{ lvv }}", "{{ lvv }}", "{{ include }}",
		"  "}
	// whitespace control at the outer edge of a file: the first piece of a file may begin, the last may end, with a hyphenated
	// tag (facing the file's boundary); an includer has white space next to the include tag, and sometimes a hyphen
	// facing it (see include below)
	firstEdge := []string{"{{- n }}", "{%- if true %}y{% endif %}", "{{- s }} "}
	lastEdge := []string{"{{ n -}}", "{% if true %}y{% endif -%}", " {{ s -}}"}
	genText := func(t *rapid.T, tag string, pos ...string) c14Piece {
		if len(pos) > 0 && rapid.IntRange(0, 3).Draw(t, "edge") == 0 {
			if pos[0] == "first" {
				return c14Piece{Text: rapid.SampledFrom(firstEdge).Draw(t, "first-edge")}
			}
			return c14Piece{Text: rapid.SampledFrom(lastEdge).Draw(t, "last-edge")}
		}
		txt := rapid.SampledFrom(texts).Draw(t, "text")
		if tag != "top" && tag != "top2" && strings.Contains(txt, "assign shared") {
			// variables assigned inside an included template are not promised to reach the includer,
			// so only the top template assigns a name that others read
			txt = "{{ shared }}"
		}
		if strings.Contains(txt, "-}}") || strings.Contains(txt, "{{-") || strings.Contains(txt, "{%-") || strings.TrimSpace(txt) == "" {
			// as it stands, so that a file may begin or end with a hyphenated tag and an include may have white space next to it
			return c14Piece{Text: txt}
		}
		return c14Piece{Text: "<" + tag + ":" + txt + ">"}
	}
	col.Rapid(g.Sub, env.PerShard(env.Pick(8000, 100000)), func(t *rapid.T) {
		c := &c14Case{N: rapid.IntRange(0, 2).Draw(t, "n"), Vars: map[string]string{}, Late: rapid.IntRange(0, 2).Draw(t, "late") == 0}
		leaves := []string{"leaf.html", "d1/leaf.html", "d1/d2/leaf.html", "x-y.txt", "../up.html", "d1/b.html", "../leaf.html"}
		// files in sub-directories that include further: every relative name is resolved against the directory of
		// the path the *rendered template* was parsed with, i.e. the top template's directory, at every depth
		mids := []string{"d1/other.html", "d1/d2/mid.html"}
		chain := []string{"a.html", "b.html", "c.html", "d.html"}
		style := func() int { return rapid.IntRange(0, 7).Draw(t, "style") }
		// an include tag, sometimes with a hyphenated tag or object of the includer facing it: the included output is
		// inserted exactly ("inserts exactly the output that rendering that file's content directly would give"), as a value is
		include := func(ps []c14Piece, target string) []c14Piece {
			if rapid.IntRange(0, 5).Draw(t, "facing-before") == 0 {
				ps = append(ps, c14Piece{Text: rapid.SampledFrom([]string{"{% assign z = 1 -%}", "{{ n -}}", "{% if true -%}{% endif -%}"}).Draw(t, "before")})
			}
			ps = append(ps, c14Piece{Target: target, Style: style()})
			if rapid.IntRange(0, 5).Draw(t, "facing-after") == 0 {
				ps = append(ps, c14Piece{Text: rapid.SampledFrom([]string{"{%- assign z = 1 %}", "{{- n }}", "{%- if true %}{% endif %}"}).Draw(t, "after")})
			}
			return ps
		}
		mk := func(name string, next string, variant string) []c14Piece {
			ps := []c14Piece{genText(t, name+variant, "first")}
			if next != "" && next != "-" && rapid.IntRange(0, 3).Draw(t, "chain") > 0 {
				ps = include(ps, next)
			}
			if next != "" && !strings.Contains(name, "/") && rapid.IntRange(0, 3).Draw(t, "midinc") == 0 {
				ps = include(ps, rapid.SampledFrom(mids).Draw(t, "mid"))
			}
			// chain files and the mid files include leaves; leaves include nothing: the graph stays acyclic
			if next != "" && rapid.Bool().Draw(t, "leafinc") {
				ps = include(ps, rapid.SampledFrom(leaves).Draw(t, "leaf"))
			}
			// (a file without includes is one piece: it keeps its first piece only when that ends the file too)
			ps = append(ps, genText(t, name+variant, "last"))
			return ps
		}
		addFile := func(name, next string) {
			f := c14File{Name: name}
			// (rapid favours the ends of a range, so the rare state sits in the middle)
			switch rapid.IntRange(0, 24).Draw(t, "state") {
			case 13: // missing: a single missing file fails the whole render
			case 1, 2, 3, 4, 21: // cache only
				f.InCache, f.Cache = true, mk(name, next, "/cache")
			case 5, 6, 7, 8, 22: // both, different content
				f.OnDisk, f.Disk = true, mk(name, next, "/disk")
				f.InCache, f.Cache = true, mk(name, next, "/cache")
				// ... and sometimes the file is deleted after the source was registered: the source is what is left
				f.Removed = rapid.IntRange(0, 3).Draw(t, "removed") == 0
			case 9, 10: // zero bytes on disk, source in the cache
				f.OnDisk, f.Disk, f.EmptyDisk = true, []c14Piece{}, true
				f.InCache, f.Cache = true, mk(name, next, "/cache")
			default:
				f.OnDisk, f.Disk = true, mk(name, next, "/disk")
			}
			if f.InCache && rapid.IntRange(0, 3).Draw(t, "spelled") == 0 {
				f.Spell = rapid.IntRange(1, 3).Draw(t, "spell")
			}
			c.Files = append(c.Files, f)
		}
		for i, name := range chain {
			next := ""
			if i+1 < len(chain) {
				next = chain[i+1]
			}
			if next == "" {
				next = "-" // the last chain file may still include leaves
			}
			addFile(name, next)
		}
		for _, name := range leaves {
			addFile(name, "")
		}
		for _, name := range mids {
			addFile(name, "-")
		}
		sort.Slice(c.Files, func(i, j int) bool { return c.Files[i].Name < c.Files[j].Name })
		c.Top = []c14Piece{genText(t, "top")}
		if rapid.IntRange(0, 3).Draw(t, "include-var") == 0 {
			// a variable that happens to be called include
			c.Top = append(c.Top, c14Piece{Text: "{% assign include = \"mine\" %}"})
		}
		for i, n := 0, rapid.IntRange(1, 3).Draw(t, "topincs"); i < n; i++ {
			target := "a.html"
			if rapid.Bool().Draw(t, "topleaf") {
				target = rapid.SampledFrom(append(append(append([]string{}, leaves...), mids...), chain...)).Draw(t, "toptarget")
			}
			// in the top template the same include tag is sometimes run twice, with a loop variable and an assigned
			// variable that change in between (only there: what an included template assigns need not reach its includer)
			if rapid.IntRange(0, 3).Draw(t, "looped") == 0 {
				c.Top = append(c.Top, c14Piece{Text: "{% for lv in (1..2) %}{% assign lvv = lv | times: 10 %}"}, c14Piece{Target: target, Style: style()}, c14Piece{Text: "{% endfor %}"}, genText(t, "top"))
				continue
			}
			c.Top = append(c.Top, c14Piece{Target: target, Style: style()}, genText(t, "top"))
		}
		if rapid.IntRange(0, 2).Draw(t, "second") == 0 {
			// targets as seen from d1: files of the top directory via "../", files of d1 directly
			from := []string{"../a.html", "../a.html", "leaf.html", "d2/leaf.html", "../../up.html", "../leaf.html", "b.html", "../b.html", "other.html"}
			c.Top2 = []c14Piece{genText(t, "top2")}
			for i, n := 0, rapid.IntRange(1, 2).Draw(t, "top2incs"); i < n; i++ {
				c.Top2 = append(c.Top2, c14Piece{Target: rapid.SampledFrom(from).Draw(t, "top2target"), Style: style()}, genText(t, "top2"))
			}
		}
		if rapid.IntRange(0, 3).Draw(t, "forloop-var") == 0 {
			// a variable that happens to be called forloop (drawn last, so the rest of the case is what it was
			// before this option existed): the top template assigns it and every file prints it - inside the
			// top template's loop the name means the loop's record, in both spellings of the template
			c.Top = append([]c14Piece{{Text: "{% assign forloop = \"mine\" %}"}}, c.Top...)
			for i := range c.Files {
				if c.Files[i].Disk != nil && !c.Files[i].EmptyDisk {
					c.Files[i].Disk = append(c.Files[i].Disk, c14Piece{Text: "[{{ forloop }}]"})
				}
				if c.Files[i].Cache != nil {
					c.Files[i].Cache = append(c.Files[i].Cache, c14Piece{Text: "[{{ forloop }}]"})
				}
			}
		}
		if v := g.Run(c); v != nil {
			t.Fatalf("%s", v.Message)
		}
	})

	bad := c14BadArg.On(col, "exhaustive over a list of non-string include arguments (integer, float, nil, undefined name, boolean, array, map, range, comparison); oracle: a SourceError and no output. Distinct by construction", true)
	for i, a := range []string{"10", "1.5", "nil", "undefined_name", "true", "b", "a", "m", "(1..2)", "n", "n == 3", "a | first | size", "m.k"} {
		if env.Mine(i) {
			bad.Run(&c14ArgCase{Arg: a})
		}
	}
	_ = liquid.NewEngine
}
