package props

import (
	"fmt"
	"github.com/osteele/liquid/values"
	"sort"
	"strconv"
	"strings"
	"testing"

	yaml "gopkg.in/yaml.v2"
	"pgregory.net/rapid"

	"verifharness/hx"
)

// ---- C15: array filters compute their documented function and never modify their input ----

type c15Case struct {
	Elems  []*hx.Spec `json:"elems"`
	Rep    string     `json:"rep"`             // "", typed, array, range, mapslice
	Filter string     `json:"filter"`          // sort reverse uniq compact concat first last size join map sort:key
	Arg    []*hx.Spec `json:"arg,omitempty"`   // concat: second array
	Sep    *string    `json:"sep,omitempty"`   // join separator
	Chain  []string   `json:"chain,omitempty"` // further argument-less filters
	Cap    int        `json:"cap,omitempty"`   // spare capacity of the bound slices
	Twice  bool       `json:"twice,omitempty"` // apply the filter a second time (with another argument) before looking at the first result
}

// realise the array in the requested representation; ok=false if it cannot take it
func c15Realise(elems []*hx.Spec, rep string) (any, bool) {
	a := hx.SArr(elems...)
	a.Cap = c15Cap
	switch rep {
	case "":
		return a.Realise(), true
	case "emptyrange", "emptyrange2":
		// a range that selects nothing is an empty array
		if len(elems) != 0 {
			return nil, false
		}
		if rep == "emptyrange" {
			return values.NewRange(1, 0), true
		}
		return values.NewRange(3, -2), true
	case "mapslice":
		ms := yaml.MapSlice{}
		for i, e := range elems {
			ms = append(ms, yaml.MapItem{Key: fmt.Sprintf("k%d", i), Value: e.Realise()})
		}
		return ms, true
	}
	for _, r := range a.ArrReps() {
		if r == rep {
			a.R = rep
			return a.Realise(), true
		}
	}
	return nil, false
}

// c15Cap is the spare capacity given to the slices of the case being evaluated.
var c15Cap int

func c15Print(m *hx.Model, v any) string {
	if mr, ok := v.(*hx.MapRef); ok {
		id, _ := m.Print(mr.M["id"])
		return "{" + id + "}"
	}
	s, st := m.Print(v)
	if st != hx.StOK {
		return fmt.Sprintf("?%v", v)
	}
	return s
}

const c15Elem = `{% if x.id %}{{ "{" }}{{ x.id }}{{ "}" }}{% else %}{{ x }}{% endif %}`

func c15List(name string) string {
	return "{% for x in " + name + " %}[" + c15Elem + "]{% endfor %}"
}

func c15Expect(m *hx.Model, items []any) string {
	var sb strings.Builder
	for _, it := range items {
		sb.WriteString("[" + c15Print(m, it) + "]")
	}
	return sb.String()
}

var c15Apply = hx.Define("c15.apply", func(c *c15Case, s *hx.Sub) *hx.Violation {
	c15Cap = c.Cap
	in, ok := c15Realise(c.Elems, c.Rep)
	if !ok {
		return hx.V("harness-error", "array cannot take representation %q", c.Rep)
	}
	binds := map[string]any{"a": in}
	fexpr := c.Filter
	name, key, hasKey := strings.Cut(c.Filter, ":")
	if hasKey {
		fexpr = name + `: "` + key + `"`
	}
	if name == "concat" {
		binds["b"] = hx.SArr(c.Arg...).Realise()
		fexpr = "concat: b"
	}
	if name == "join" && c.Sep != nil {
		binds["sep"] = *c.Sep
		fexpr = "join: sep"
	}
	for _, f := range c.Chain {
		fexpr += " | " + f
	}
	scalar := false
	last := name
	if len(c.Chain) > 0 {
		last = c.Chain[len(c.Chain)-1]
	}
	switch last {
	case "first", "last", "size", "join":
		scalar = true
	}
	var src string
	if scalar {
		src = "{% assign x = a | " + fexpr + " %}" + c15Elem + "|" + c15List("a")
	} else if c.Twice {
		// the first result must not change when the same input goes through the filter again
		again := fexpr
		if name == "concat" {
			binds["b2"] = []any{"zz", "yy", "xx", "ww"}
			again = strings.Replace(fexpr, "concat: b", "concat: b2", 1)
		}
		src = "{% assign r = a | " + fexpr + " %}{% assign r2 = a | " + again + " %}" + c15List("r") + "|" + c15List("a")
	} else {
		src = "{% assign r = a | " + fexpr + " %}" + c15List("r") + "|" + c15List("a")
	}
	before := hx.Fingerprint(binds)
	o := hx.Render(src, binds)
	desc := fmt.Sprintf("%s on %v (%s)", fexpr, hx.SArr(c.Elems...).Logical(), c.Rep)
	if o.Panic != nil {
		return hx.V("panic@"+o.Panic.Site, "%s: %v", desc, o.Panic)
	}
	if after := hx.Fingerprint(binds); after != before {
		return hx.V("c15:input-modified", "%s modified its input:\n   before %s\n   after  %s", desc, before, after)
	}
	if o.Err != nil {
		return hx.V("c15:error", "%s failed: %v", desc, o.Err)
	}
	got, inputAfter, _ := strings.Cut(o.Out, "|")
	m := hx.NewModel(map[string]any{"a": hx.SArr(c.Elems...).Logical(), "b": hx.SArr(c.Arg...).Logical()})
	items := m.Vars["a"].([]any)
	// (a for loop over an ordered map yields [key, value] pairs, so the listing only applies to the other representations)
	if want := c15Expect(m, items); c.Rep != "mapslice" && inputAfter != want {
		return hx.V("c15:input-changed", "%s: iterating the input afterwards gives %q, expected %q", desc, inputAfter, want)
	}
	// representation invariance: same result as the generic slice
	if c.Rep != "" {
		gen, _ := c15Realise(c.Elems, "")
		b2 := map[string]any{"a": gen}
		for k, v := range binds {
			if k != "a" {
				b2[k] = v
			}
		}
		o2 := hx.Render(src, b2)
		got2, _, _ := strings.Cut(o2.Out, "|")
		if o2.Panic != nil || o2.Err != nil || got2 != got {
			return hx.V("c15:representation", "%s renders %q, on the equal []any %v", desc, o.Out, o2)
		}
	}
	// reference result
	want, st := c15Model(m, items, c, name, key)
	if st != hx.StOK {
		s.Unspec()
		return nil
	}
	if want != got {
		return hx.V("c15:value:"+name, "%s rendered %q, expected %q", desc, got, want)
	}
	distinct := map[string]bool{}
	for _, it := range items {
		distinct[c15Print(m, it)] = true
	}
	if len(items) >= 2 && len(distinct) >= 2 {
		s.NTKey(desc)
	}
	if s.WantSample() {
		s.Sample(map[string]any{"template": src, "array": fmt.Sprint(hx.SArr(c.Elems...).Logical()), "rep": c.Rep, "output": o.Out})
	}
	return nil
})

// c15Model computes the expected rendering, or the validity verdict for sort.
func c15Model(m *hx.Model, items []any, c *c15Case, name, key string) (string, hx.Status) {
	cur := any(items)
	steps := append([]string{c.Filter}, c.Chain...)
	for i, f := range steps {
		fname, fkey, _ := strings.Cut(f, ":")
		arr, isArr := cur.([]any)
		if !isArr {
			return "", hx.StUnspec
		}
		switch fname {
		case "sort":
			sorted, st := c15Sort(m, arr, fkey)
			if st != hx.StOK {
				return "", st
			}
			cur = sorted
		case "concat":
			cur = append(append([]any{}, arr...), m.Vars["b"].([]any)...)
		case "join":
			sep := " "
			if c.Sep != nil && i == 0 {
				sep = *c.Sep
			}
			var parts []string
			for _, e := range arr {
				switch e.(type) {
				case nil:
					continue
				case *hx.MapRef, []any:
					return "", hx.StUnspec
				}
				parts = append(parts, c15Print(m, e))
			}
			cur = strings.Join(parts, sep)
		case "map":
			out := make([]any, len(arr))
			for j, e := range arr {
				v, st := m.Filter("map", []any{e}, []any{fkey})
				if st != hx.StOK {
					return "", st
				}
				out[j] = v.([]any)[0]
			}
			cur = out
		default:
			v, st := m.Filter(fname, cur, nil)
			if st != hx.StOK {
				return "", st
			}
			cur = v
		}
	}
	if arr, ok := cur.([]any); ok {
		return c15Expect(m, arr), hx.StOK
	}
	return c15Print(m, cur), hx.StOK
}

// c15Sort returns the unique correct ascending order when there is one.
func c15Sort(m *hx.Model, arr []any, key string) ([]any, hx.Status) {
	out := append([]any{}, arr...)
	keyOf := func(v any) any {
		if key == "" {
			return v
		}
		if mr, ok := v.(*hx.MapRef); ok {
			return mr.M[key]
		}
		return nil
	}
	kind := ""
	for _, e := range out {
		k := keyOf(e)
		if k == nil {
			if key == "" {
				return nil, hx.StUnspec // position of nil elements is not stated
			}
			continue
		}
		var kk string
		switch k.(type) {
		case int64, float64:
			kk = "num"
		case string:
			kk = "str"
		default:
			return nil, hx.StUnspec
		}
		if kind != "" && kind != kk {
			return nil, hx.StUnspec // mixed kinds: only "a permutation" could be asserted
		}
		kind = kk
	}
	less := func(a, b any) bool {
		ka, kb := keyOf(a), keyOf(b)
		if ka == nil || kb == nil {
			return ka == nil && kb != nil // entries lacking the key first
		}
		lt, _ := m.Less(ka, kb)
		return lt
	}
	sort.SliceStable(out, func(i, j int) bool { return less(out[i], out[j]) })
	// ties between elements that print differently have no stated order
	for i := 1; i < len(out); i++ {
		if !less(out[i-1], out[i]) && !less(out[i], out[i-1]) && c15Print(m, out[i-1]) != c15Print(m, out[i]) {
			return nil, hx.StUnspec
		}
	}
	return out, hx.StOK
}

// sort over arrays that contain nil: where the nils go is not stated, but the result is still a
// permutation of the input whose other elements ascend

type c15NilSortCase struct {
	Elems []*hx.Spec `json:"elems"`
}

var c15NilSort = hx.Define("c15.sort-with-nil", func(c *c15NilSortCase, s *hx.Sub) *hx.Violation {
	src := "{% assign q = r | sort %}{% for x in q %}[{{ x }}]{% endfor %}|{{ q | size }}"
	o := hx.Render(src, map[string]any{"r": hx.SArr(c.Elems...).Realise()})
	desc := fmt.Sprintf("sort on %v", hx.SArr(c.Elems...).Logical())
	if o.Panic != nil {
		return hx.V("panic@"+o.Panic.Site, "%s: %v", desc, o.Panic)
	}
	if !o.OK() {
		return hx.V("c15:error:sort", "%s failed: %v", desc, o.Err)
	}
	list, size, _ := strings.Cut(o.Out, "|")
	var got []string
	if list != "" {
		got = strings.Split(strings.TrimSuffix(strings.TrimPrefix(list, "["), "]"), "][")
	}
	m := hx.NewModel(nil)
	var want []string
	for _, e := range c.Elems {
		p, _ := m.Print(e.Logical())
		want = append(want, p)
	}
	if size != fmt.Sprint(len(c.Elems)) || len(got) != len(want) {
		return hx.V("c15:value:sort", "%s rendered %q: not a permutation of the input", desc, o.Out)
	}
	a, b := append([]string{}, got...), append([]string{}, want...)
	sort.Strings(a)
	sort.Strings(b)
	if strings.Join(a, "\x00") != strings.Join(b, "\x00") {
		return hx.V("c15:value:sort", "%s rendered %q: not a permutation of the input", desc, o.Out)
	}
	// the elements that are not nil, in the order they come out, ascend
	var prev any
	for _, g := range got {
		if g == "" {
			continue
		}
		var cur any = g
		if f, err := strconv.ParseFloat(g, 64); err == nil {
			cur = f
		}
		if prev != nil {
			if lt, st := m.Less(cur, prev); st == hx.StOK && lt {
				return hx.V("c15:sort-with-nil", "%s rendered %q: the elements other than nil do not ascend", desc, o.Out)
			}
		}
		prev = cur
	}
	s.NT()
	return nil
})

var c15Alphabets = [][]*hx.Spec{
	{hx.SInt(0), hx.SInt(1), hx.SInt(2), hx.SNil()},
	{hx.SFloat(0.5), hx.SFloat(1.5), hx.SFloat(2), hx.SNil()},
	{hx.SStr("a"), hx.SStr("b"), hx.SStr("B"), hx.SNil()},
	{hx.SInt(0), hx.SInt(1), hx.SInt(2)},
	{hx.SStr("a"), hx.SStr("b"), hx.SStr("B")},
	{hx.SFloat(0.5), hx.SFloat(1.5), hx.SFloat(2)},
	{hx.SInt(1), hx.SFloat(1), hx.SInt(2), hx.SFloat(0.5)},      // equal values of different numeric kinds
	{hx.SBool(true), hx.SBool(false), hx.SNil()},                // false is not nil
	{hx.SInt(-1), hx.SFloat(-0.5), hx.SInt(0), hx.SFloat(-1.5)}, // negative fractions between integers
}

var c15Filters = []string{"sort", "reverse", "uniq", "compact", "first", "last", "size", "join", "concat"}

func c15Records(t *rapid.T, n int, key string) []*hx.Spec {
	var out []*hx.Spec
	// a third of the record sets hold integers only (zero and negative ones too) and are realised as map[string]int
	mode := rapid.IntRange(0, 5).Draw(t, "typed-records")
	typed := mode == 1
	// and some are what a generic decoder hands out (map[any]any), or have a named string type as key type
	keyRep := map[int]string{3: "anykey", 4: "namedkey"}[mode]
	// some record sets share one id, and differ - if at all - in which further keys they hold, some of them bound to nil
	sameID := !typed && rapid.IntRange(0, 3).Draw(t, "same-id") == 0
	for i := 0; i < n; i++ {
		rec := hx.SMap("id", hx.SInt(int64(i+1)))
		if sameID {
			rec = hx.SMap("id", hx.SInt(1))
			if y := rapid.IntRange(0, 3).Draw(t, "nilkey"); y > 0 {
				rec.Keys, rec.E = append(rec.Keys, fmt.Sprintf("y%d", y)), append(rec.E, hx.SNil())
			}
		}
		for j, extra := 0, rapid.IntRange(0, 3).Draw(t, "extra"); j < extra; j++ {
			rec.Keys, rec.E = append(rec.Keys, fmt.Sprintf("x%d", j)), append(rec.E, hx.SInt(int64(j)))
		}
		if typed {
			if rapid.IntRange(0, 4).Draw(t, "kabsent") > 0 {
				rec.Keys, rec.E = append(rec.Keys, key), append(rec.E, hx.SInt(int64(rapid.IntRange(-3, 3).Draw(t, "ki"))))
			}
			rec.R = "typed"
			out = append(out, rec)
			continue
		}
		switch rapid.IntRange(0, 5).Draw(t, "kk") {
		case 0: // absent
		case 1:
			rec.Keys, rec.E = append(rec.Keys, key), append(rec.E, hx.SNil())
		default:
			if rapid.Bool().Draw(t, "kstr") {
				rec.Keys, rec.E = append(rec.Keys, key), append(rec.E, hx.SStr(rapid.SampledFrom([]string{"a", "b", "c"}).Draw(t, "ks")))
			} else {
				rec.Keys, rec.E = append(rec.Keys, key), append(rec.E, hx.SInt(int64(rapid.IntRange(0, 3).Draw(t, "ki"))))
			}
		}
		rec.R = keyRep
		out = append(out, rec)
		// now and then a nil stands among the records
		if !typed && rapid.IntRange(0, 7).Draw(t, "nil-element") == 0 {
			out = append(out, hx.SNil())
		}
	}
	return out
}

func TestC15(t *testing.T) {
	col := hx.NewCollector("C15")
	defer col.Finish()
	col.Corpus()
	env := col.Env

	maxLen := env.Pick(3, 4)
	app := c15Apply.On(col, fmt.Sprintf("bounded-exhaustive: all arrays of length 0..%d over {0,1,2}, {0.5,1.5,2}, {\"a\",\"b\",\"B\"}, each with and without nil, in every Go representation they can take ([]any, typed slice, fixed array, Go range for integer intervals, ordered YAML map values) x {sort reverse uniq compact first last size join concat}; then rapid: arrays up to length 8, arrays of maps with present/absent/nil key through sort: key and map: key, and chains of up to 4 filters. Oracle: reference functions (sort: the unique ascending order, entries lacking the key first, unspecified when ties/mixed kinds/nil elements leave it open; uniq by reference ==; join skips nil); the input iterates the same afterwards and the Go binding's deep fingerprint is unchanged; every representation renders exactly like the equal []any. Non-trivial: >= 2 elements of which >= 2 distinct; distinct by (filter, array, representation)", maxLen), false)
	idx := 0
	reps := []string{"", "typed", "array", "namedany", "range", "mapslice", "typed:int8", "typed:int32", "typed:int64", "typed:uint16", "typed:uint", "typed:float32", "emptyrange", "emptyrange2"}
	var rec func(al []*hx.Spec, cur []*hx.Spec, n int)
	rec = func(al []*hx.Spec, cur []*hx.Spec, n int) {
		if len(cur) == n {
			for _, rep := range reps {
				if _, ok := c15Realise(cur, rep); !ok {
					continue
				}
				for _, f := range c15Filters {
					idx++
					if !env.Mine(idx) {
						continue
					}
					c := &c15Case{Elems: append([]*hx.Spec{}, cur...), Rep: rep, Filter: f, Cap: idx % 4, Twice: idx%8 >= 4}
					if f == "concat" {
						c.Arg = []*hx.Spec{al[0], al[len(al)-1]}
					}
					if f == "join" && idx%2 == 0 {
						sep := ","
						c.Sep = &sep
					}
					app.Run(c)
				}
			}
			return
		}
		for _, e := range al {
			rec(al, append(cur, e), n)
		}
	}
	for _, al := range c15Alphabets {
		for n := 0; n <= maxLen; n++ {
			rec(al, nil, n)
		}
	}
	app.Sub.Note("the exhaustive part enumerated %d (array, representation, filter) points over all shards", idx)

	ns := c15NilSort.On(col, "exhaustive: all arrays of length 2..4 over {0, 1, 2, nil} and {\"a\", \"b\", nil} that contain a nil; oracle: sort returns a permutation of the input in which the elements other than nil ascend (where the nils go is not stated). Distinct by construction", true)
	for _, al := range [][]*hx.Spec{c15Alphabets[0], {hx.SStr("a"), hx.SStr("b"), hx.SNil()}} {
		var recn func(cur []*hx.Spec, n int)
		recn = func(cur []*hx.Spec, n int) {
			if len(cur) >= 2 {
				hasNil := false
				for _, e := range cur {
					hasNil = hasNil || e.K == "nil"
				}
				idx++
				if hasNil && env.Mine(idx) {
					ns.Run(&c15NilSortCase{Elems: append([]*hx.Spec{}, cur...)})
				}
			}
			if n == 0 {
				return
			}
			for _, e := range al {
				recn(append(cur, e), n-1)
			}
		}
		recn(nil, 4)
	}

	col.Rapid(app.Sub, env.PerShard(env.Pick(200000, 2000000)), func(t *rapid.T) {
		c := &c15Case{}
		if rapid.IntRange(0, 3).Draw(t, "records") == 0 {
			// key names that collide with the special properties size/first/last matter: an entry lacking
			// the key lacks it, whatever a property lookup on the map would say
			key := rapid.SampledFrom([]string{"k", "k", "size", "first", "last"}).Draw(t, "keyname")
			c.Elems = c15Records(t, rapid.IntRange(0, 6).Draw(t, "n"), key)
			c.Filter = rapid.SampledFrom([]string{"sort:" + key, "sort:" + key, "map:" + key, "map:id", "sort:id", "reverse", "first", "last", "size", "uniq", "compact"}).Draw(t, "rf")
			var fit []string
			for _, r := range []string{"", "typed", "array", "namedany", "mapslice"} {
				if _, ok := c15Realise(c.Elems, r); ok {
					fit = append(fit, r)
				}
			}
			c.Rep = rapid.SampledFrom(fit).Draw(t, "rep")
			if strings.HasPrefix(c.Filter, "map") {
				c.Chain = []string{rapid.SampledFrom([]string{"compact", "uniq", "reverse", "join", "first", "last", "size", "size"}).Draw(t, "after")}
			}
		} else {
			al := rapid.SampledFrom(c15Alphabets).Draw(t, "alphabet")
			if rapid.IntRange(0, 4).Draw(t, "mixed") == 0 {
				al = append(append([]*hx.Spec{}, c15Alphabets[0]...), c15Alphabets[2]...)
			}
			c.Elems = rapid.SliceOfN(rapid.SampledFrom(al), 0, 8).Draw(t, "elems")
			c.Filter = rapid.SampledFrom(c15Filters).Draw(t, "f")
			if c.Filter == "concat" {
				c.Arg = rapid.SliceOfN(rapid.SampledFrom(al), 0, 3).Draw(t, "arg")
			}
			if c.Filter == "join" && rapid.Bool().Draw(t, "sep") {
				sep := rapid.SampledFrom([]string{",", "", " - ", "é"}).Draw(t, "sepv")
				c.Sep = &sep
			}
			c.Chain = rapid.SliceOfN(rapid.SampledFrom([]string{"sort", "reverse", "uniq", "compact", "first", "last", "size", "join"}), 0, 3).Draw(t, "chain")
			// nothing follows a filter that yields a scalar
			isScalar := func(f string) bool { return f == "first" || f == "last" || f == "size" || f == "join" }
			if isScalar(c.Filter) {
				c.Chain = nil
			}
			for i, f := range c.Chain {
				if isScalar(f) {
					c.Chain = c.Chain[:i+1]
					break
				}
			}
			var fit []string
			for _, r := range reps {
				if _, ok := c15Realise(c.Elems, r); ok {
					fit = append(fit, r)
				}
			}
			c.Rep = rapid.SampledFrom(fit).Draw(t, "rep")
		}
		c.Cap = rapid.IntRange(0, 4).Draw(t, "cap")
		c.Twice = rapid.IntRange(0, 3).Draw(t, "twice") == 0
		if v := app.Run(c); v != nil {
			t.Fatalf("%s", v.Message)
		}
	})
}
