package props

import (
	"fmt"
	"html"
	"net/url"
	"strings"
	"testing"
	"unicode"
	"unicode/utf8"

	"github.com/osteele/liquid"
	"pgregory.net/rapid"

	"verifharness/hx"
)

// ---- C16: string filters implement their documented functions on every string ----

type c16Case struct {
	Filter string   `json:"filter"`
	S      string   `json:"s"`
	Recv   string   `json:"recv,omitempty"` // "" string receiver; int | float | bool | nil: receiver of that kind (S holds its printed form)
	I      []int64  `json:"i,omitempty"`    // integer arguments (first)
	A      []string `json:"a,omitempty"`    // string arguments (after the integers)
}

var c16Tpl = map[string]*liquid.Template{}
var c16Engine = liquid.NewEngine()

func c16Template(src string) (*liquid.Template, error) {
	if t, ok := c16Tpl[src]; ok {
		return t, nil
	}
	t, err := c16Engine.ParseString(src)
	if err != nil {
		return nil, err
	}
	c16Tpl[src] = t
	return t, nil
}

func (c *c16Case) render() (string, hx.Outcome) {
	b := map[string]any{}
	switch c.Recv {
	case "int":
		var n int
		fmt.Sscan(c.S, &n)
		b["s"] = n
	case "uint", "uint8", "uint16", "uint32", "uint64", "int8", "int64":
		var n int64
		fmt.Sscan(c.S, &n)
		sp := hx.SInt(n)
		sp.R = c.Recv
		b["s"] = sp.Realise()
	case "float":
		var f float64
		fmt.Sscan(c.S, &f)
		b["s"] = f
	case "bool":
		b["s"] = c.S == "true"
	case "nil":
		b["s"] = nil
	case "named": // a string of a named Go type is a string
		b["s"] = hx.NamedString(c.S)
	case "namedptr":
		v := hx.NamedString(c.S)
		b["s"] = &v
	default:
		b["s"] = c.S
	}
	src := "{{ s | " + c.Filter
	k := 0
	for i, v := range c.I {
		if k == 0 {
			src += ": "
		} else {
			src += ", "
		}
		n := fmt.Sprintf("i%d", i)
		b[n] = int(v)
		src += n
		k++
	}
	for i, v := range c.A {
		if k == 0 {
			src += ": "
		} else {
			src += ", "
		}
		n := fmt.Sprintf("a%d", i)
		b[n] = v
		src += n
		k++
	}
	src += " }}"
	var o hx.Outcome
	o.Panic = hx.Guard(func() {
		t, err := c16Template(src)
		if err != nil {
			o.Err, o.ParseErr = err.(liquid.SourceError), true
			return
		}
		out, rerr := t.RenderString(b)
		o.Out, o.Err = out, rerr
	})
	return src, o
}

func runes(s string) []rune { return []rune(s) }

func words(s string) []string { return strings.FieldsFunc(s, unicode.IsSpace) }

// refReplace replaces occurrences of old (non-empty) left to right, non-overlapping; n < 0 = all.
func refReplace(s, old, new string, n int) string {
	var sb strings.Builder
	for n != 0 {
		i := strings.Index(s, old)
		if i < 0 {
			break
		}
		sb.WriteString(s[:i])
		sb.WriteString(new)
		s = s[i+len(old):]
		n--
	}
	sb.WriteString(s)
	return sb.String()
}

// c16Judge returns ("", false) when the output satisfies the statement, a
// message when it does not, and unspecified=true when the statement is silent.
func c16Judge(c *c16Case, out string) (msg string, unspecified bool, bites bool) {
	s := c.S // receivers of other kinds are first converted to the text they print as
	if c.Recv == "nil" {
		s = ""
	}
	rs := runes(s)
	arg := func(i int) string {
		if i < len(c.A) {
			return c.A[i]
		}
		return ""
	}
	switch c.Filter {
	case "append":
		return cmpOut(out, s+arg(0)), false, arg(0) != ""
	case "prepend":
		return cmpOut(out, arg(0)+s), false, arg(0) != ""
	case "upcase":
		return cmpOut(out, strings.Map(unicode.ToUpper, s)), false, s != strings.Map(unicode.ToUpper, s)
	case "downcase":
		return cmpOut(out, strings.Map(unicode.ToLower, s)), false, s != strings.Map(unicode.ToLower, s)
	case "capitalize":
		ro := runes(out)
		if len(ro) != len(rs) {
			return fmt.Sprintf("capitalize changed the number of characters: %q -> %q", s, out), false, false
		}
		if strings.Map(unicode.ToLower, out) != strings.Map(unicode.ToLower, s) {
			return fmt.Sprintf("capitalize changed more than case: %q -> %q", s, out), false, false
		}
		if len(rs) > 0 && ro[0] != unicode.ToUpper(rs[0]) {
			return fmt.Sprintf("capitalize did not upper-case the first character: %q -> %q", s, out), false, false
		}
		return "", false, len(rs) > 0 && unicode.ToUpper(rs[0]) != rs[0]
	case "strip":
		return cmpOut(out, strings.TrimFunc(s, unicode.IsSpace)), false, strings.TrimFunc(s, unicode.IsSpace) != s
	case "lstrip":
		return cmpOut(out, strings.TrimLeftFunc(s, unicode.IsSpace)), false, strings.TrimLeftFunc(s, unicode.IsSpace) != s
	case "rstrip":
		return cmpOut(out, strings.TrimRightFunc(s, unicode.IsSpace)), false, strings.TrimRightFunc(s, unicode.IsSpace) != s
	case "replace", "replace_first", "remove", "remove_first":
		old := arg(0)
		if old == "" {
			return "", true, false // the statement speaks of substituting occurrences; the empty search string has none it defines
		}
		nw := ""
		if strings.HasPrefix(c.Filter, "replace") {
			nw = arg(1)
		}
		n := -1
		if strings.HasSuffix(c.Filter, "_first") {
			n = 1
		}
		return cmpOut(out, refReplace(s, old, nw, n)), false, strings.Contains(s, old)
	case "size":
		return cmpOut(out, fmt.Sprint(len(rs))), false, len(rs) != len(s)
	case "slice":
		start, n := int(c.I[0]), 1
		if len(c.I) > 1 {
			n = int(c.I[1])
		}
		ro := runes(out)
		if len(ro) > len(rs) || !strings.Contains(s, out) {
			return fmt.Sprintf("slice: %v of %q gave %q, which is not a piece of the input", c.I, s, out), false, false
		}
		if start < 0 {
			start += len(rs)
		}
		if start < 0 || start > len(rs) || n < 0 {
			return "", true, false // out-of-range arguments: only "a piece, never longer" is asserted
		}
		end := start + n
		if end > len(rs) {
			end = len(rs)
		}
		return cmpOut(out, string(rs[start:end])), false, start < len(rs) && n > 0
	case "truncate":
		n := 50
		if len(c.I) > 0 {
			n = int(c.I[0])
		}
		el := "..."
		if len(c.A) > 0 {
			el = c.A[0]
		}
		if n >= 0 && len(rs) <= n {
			return cmpOut(out, s), false, false // already fits: unchanged
		}
		le := len(runes(el))
		if n < le || n < 0 {
			return "", true, false
		}
		return cmpOut(out, string(rs[:n-le])+el), false, true
	case "truncatewords":
		n := 15
		if len(c.I) > 0 {
			n = int(c.I[0])
		}
		el := "..."
		if len(c.A) > 0 {
			el = c.A[0]
		}
		ws := words(s)
		if n < 1 {
			return "", true, false
		}
		if len(ws) <= n {
			return cmpOut(out, s), false, false // already fits: unchanged
		}
		if !strings.HasSuffix(out, el) {
			return fmt.Sprintf("truncatewords: %d of %q gave %q, which does not end with the ellipsis %q", n, s, out, el), false, false
		}
		gw := words(strings.TrimSuffix(out, el))
		if strings.Join(gw, " ") != strings.Join(ws[:n], " ") {
			return fmt.Sprintf("truncatewords: %d of %q gave %q; its words should be the first %d words", n, s, out, n), false, false
		}
		return "", false, true
	case "escape":
		if html.UnescapeString(out) != s {
			return fmt.Sprintf("escape of %q gave %q, which does not unescape to the input", s, out), false, false
		}
		if strings.ContainsAny(out, "<>'\"") {
			return fmt.Sprintf("escape of %q left a raw special character: %q", s, out), false, false
		}
		for i := 0; i < len(out); i++ {
			if out[i] == '&' {
				j := strings.IndexByte(out[i:], ';')
				if j < 0 || j > 8 {
					return fmt.Sprintf("escape of %q left a raw ampersand: %q", s, out), false, false
				}
			}
		}
		return "", false, strings.ContainsAny(s, "<>&'\"")
	case "escape_once":
		if html.UnescapeString(out) != html.UnescapeString(s) {
			return fmt.Sprintf("escape_once of %q gave %q, which denotes a different text", s, out), false, false
		}
		if strings.ContainsAny(out, "<>'\"") {
			return fmt.Sprintf("escape_once of %q left a raw special character: %q", s, out), false, false
		}
		c2 := &c16Case{Filter: "escape_once", S: out}
		_, o2 := c2.render()
		if !o2.OK() || o2.Out != out {
			return fmt.Sprintf("escape_once is not idempotent: %q -> %q -> %v", s, out, o2), false, false
		}
		return "", false, strings.ContainsAny(s, "<>&'\"")
	case "url_encode":
		dec, err := url.QueryUnescape(out)
		if err != nil || dec != s {
			return fmt.Sprintf("url_encode of %q gave %q, which does not decode to the input", s, out), false, false
		}
		c2 := &c16Case{Filter: "url_decode", S: out}
		_, o2 := c2.render()
		if !o2.OK() || o2.Out != s {
			return fmt.Sprintf("url_decode does not invert url_encode: %q -> %q -> %v", s, out, o2), false, false
		}
		return "", false, out != s
	case "newline_to_br", "strip_newlines", "strip_html", "url_decode":
		return "", true, false // only the UTF-8 clause applies (checked by the caller)
	}
	return "", true, false
}

func cmpOut(got, want string) string {
	if got == want {
		return ""
	}
	return fmt.Sprintf("rendered %q, expected %q", got, want)
}

var c16Apply = hx.Define("c16.apply", func(c *c16Case, s *hx.Sub) *hx.Violation {
	src, o := c.render()
	desc := fmt.Sprintf("%s with s=%q%s i=%v a=%q", src, c.S, map[bool]string{true: " (" + c.Recv + ")", false: ""}[c.Recv != ""], c.I, c.A)
	if o.Panic != nil {
		return hx.V("panic@"+o.Panic.Site, "%s: %v", desc, o.Panic)
	}
	if o.Err != nil {
		if c.Filter == "url_decode" {
			s.Unspec() // malformed escapes are an error; the statement only requires it to invert url_encode
			return nil
		}
		return hx.V("c16:error:"+c.Filter, "%s failed: %v", desc, o.Err)
	}
	valid := utf8.ValidString(c.S)
	for _, a := range c.A {
		valid = valid && utf8.ValidString(a)
	}
	if valid && c.Filter != "url_decode" && !utf8.ValidString(o.Out) {
		return hx.V("c16:invalid-utf8:"+c.Filter, "%s produced invalid UTF-8: %q", desc, o.Out)
	}
	msg, unspec, bites := c16Judge(c, o.Out)
	if msg != "" {
		return hx.V("c16:value:"+c.Filter, "%s: %s", desc, msg)
	}
	if unspec {
		s.Unspec()
		return nil
	}
	if bites && c.S != "" {
		s.NTKey(desc)
	}
	if s.WantSample() {
		s.Sample(map[string]any{"template": src, "s": c.S, "i": c.I, "a": c.A, "output": o.Out})
	}
	return nil
})

// split and join are inverse on separator-free pieces

type c16SplitCase struct {
	Pieces []string `json:"pieces"`
	Sep    string   `json:"sep"`
}

var c16Split = hx.Define("c16.split-join", func(c *c16SplitCase, s *hx.Sub) *hx.Violation {
	joined := strings.Join(c.Pieces, c.Sep)
	src := `{{ s | split: sep | join: sep }}|{{ s | split: sep | size }}|{% assign p = s | split: sep %}{% for x in p %}[{{ x }}]{% endfor %}|{{ p | join: sep }}`
	o := hx.Render(src, map[string]any{"s": joined, "sep": c.Sep})
	if o.Panic != nil {
		return hx.V("panic@"+o.Panic.Site, "pieces %q sep %q: %v", c.Pieces, c.Sep, o.Panic)
	}
	if o.Err != nil {
		return hx.V("c16:error:split", "pieces %q sep %q failed: %v", c.Pieces, c.Sep, o.Err)
	}
	var list strings.Builder
	for _, p := range c.Pieces {
		list.WriteString("[" + p + "]")
	}
	want := joined + "|" + fmt.Sprint(len(c.Pieces)) + "|" + list.String() + "|" + joined
	if o.Out != want {
		return hx.V("c16:split-join", "pieces %q joined by %q: split/join rendered %q, expected %q", c.Pieces, c.Sep, o.Out, want)
	}
	if len(c.Pieces) >= 2 {
		s.NTKey(joined + "\x00" + c.Sep)
	}
	if s.WantSample() {
		s.Sample(map[string]any{"pieces": c.Pieces, "sep": c.Sep, "output": o.Out})
	}
	return nil
})

// numbers given where a string is expected are converted to the text they print as

type c16NumArgCase struct {
	Filter string `json:"filter"` // append | prepend | remove | split-join
	Rep    string `json:"rep"`
	N      int64  `json:"n"`
}

var c16NumArg = hx.Define("c16.number-as-text", func(c *c16NumArgCase, s *hx.Sub) *hx.Violation {
	sp := hx.SInt(c.N)
	if c.Rep == "float64" {
		sp = hx.SFloat(float64(c.N) + 0.5)
	} else {
		sp.R = c.Rep
	}
	text := fmt.Sprint(c.N)
	if c.Rep == "float64" {
		text = fmt.Sprint(float64(c.N) + 0.5)
	}
	base := "a" + text + "b" + text
	var src, want string
	switch c.Filter {
	case "append":
		src, want = `{{ "x" | append: n }}|{{ n | append: "x" }}`, "x"+text+"|"+text+"x"
	case "prepend":
		src, want = `{{ "x" | prepend: n }}|{{ n | prepend: "x" }}`, text+"x|x"+text
	case "remove":
		src, want = `{{ s | remove: n }}|{{ s | replace: n, "-" }}`, "ab|a-b-"
	default:
		src, want = `{{ s | split: n | join: "," }}|{{ n | size }}`, "a,b|"+fmt.Sprint(len(text))
		if c.Filter == "split-join" {
			want = "a,b|" // size of a number is not asserted (see c16.apply); only the split half
			src = `{{ s | split: n | join: "," }}|`
		}
	}
	o := hx.Render(src, map[string]any{"n": sp.Realise(), "s": base})
	if o.Panic != nil {
		return hx.V("panic@"+o.Panic.Site, "%s with n=%s(%v): %v", src, c.Rep, c.N, o.Panic)
	}
	if !o.OK() || o.Out != want {
		return hx.V("c16:number-as-text:"+c.Filter, "%s with n = %s(%s) and s = %q renders %v; a number is converted to the text it prints as, expected %q", src, map[bool]string{true: "int", false: c.Rep}[c.Rep == ""], text, base, o, want)
	}
	s.NT()
	if s.WantSample() {
		s.Sample(map[string]any{"template": src, "n": text, "rep": c.Rep, "output": o.Out})
	}
	return nil
})

var c16Alphabet = []string{"a", "B", " ", "\n", "é", "😀", "<", "&", "%", "à", "Å"} // à and Å end in the bytes 0xA0 and 0x85
var c16NoArg = []string{"upcase", "downcase", "capitalize", "strip", "lstrip", "rstrip", "size", "escape", "escape_once", "url_encode", "url_decode", "newline_to_br", "strip_newlines", "strip_html"}
var c16StrArgs = []string{"", "a", "B", " ", "é", "😀", "<", "&", "%", "aB", "a ", "&a", "éé", "\n"}

func TestC16(t *testing.T) {
	col := hx.NewCollector("C16")
	defer col.Finish()
	col.Corpus()
	env := col.Env

	maxLen := env.Pick(3, 4)
	app := c16Apply.On(col, fmt.Sprintf("bounded-exhaustive: all strings of length 0..%d over {a, B, space, newline, e-acute (2 bytes), an emoji (4 bytes), <, &, %%} x every string filter x integer arguments -3..12 (slice start/length, truncate and truncatewords counts) x string arguments of length <= 2 over the same alphabet (append/prepend/replace/remove arguments, ellipses); then rapid: strings up to 200 characters; number/bool/nil receivers. Oracle: per-filter reference on characters (see c16Judge): exact functions for append/prepend/case/strip/replace/remove/size/in-range slice/truncate; structural validity for truncatewords, capitalize, escape (round-trips through html.UnescapeString, no raw specials), escape_once idempotent, url_decode inverts url_encode; valid UTF-8 in => valid UTF-8 out. Non-trivial: non-empty string and an argument that bites; distinct by (filter, string, arguments)", maxLen), false)
	// enumerate strings
	var strs []string
	var gen func(cur string, n int)
	gen = func(cur string, n int) {
		strs = append(strs, cur)
		if n == 0 {
			return
		}
		for _, ch := range c16Alphabet {
			gen(cur+ch, n-1)
		}
	}
	gen("", maxLen)
	idx := 0
	run := func(c *c16Case) {
		idx++
		if env.Mine(idx) {
			app.Run(c)
		}
	}
	ints := []int64{}
	for i := int64(-3); i <= 12; i++ {
		ints = append(ints, i)
	}
	for _, s := range strs {
		for _, f := range c16NoArg {
			run(&c16Case{Filter: f, S: s})
		}
		for _, a := range c16StrArgs {
			for _, f := range []string{"append", "prepend", "remove", "remove_first"} {
				run(&c16Case{Filter: f, S: s, A: []string{a}})
			}
			for _, b := range []string{"", "x", "é", "aa"} {
				run(&c16Case{Filter: "replace", S: s, A: []string{a, b}})
				run(&c16Case{Filter: "replace_first", S: s, A: []string{a, b}})
			}
		}
		for _, i := range ints {
			run(&c16Case{Filter: "slice", S: s, I: []int64{i}})
			for _, n := range []int64{-1, 0, 1, 2, 3, 5, 12} {
				run(&c16Case{Filter: "slice", S: s, I: []int64{i, n}})
			}
			run(&c16Case{Filter: "truncate", S: s, I: []int64{i}})
			run(&c16Case{Filter: "truncatewords", S: s, I: []int64{i}})
			for _, el := range []string{"", "é", "..", "😀!"} {
				run(&c16Case{Filter: "truncate", S: s, I: []int64{i}, A: []string{el}})
				run(&c16Case{Filter: "truncatewords", S: s, I: []int64{i}, A: []string{el}})
			}
		}
		run(&c16Case{Filter: "truncate", S: s})
		run(&c16Case{Filter: "truncatewords", S: s})
	}
	// receivers of other kinds are first converted to the text they print as
	for _, str := range []string{"ɐbc", "ɐ", "ⱥbc", "ɐ ɐ", "éa", "ßa"} {
		for _, recv := range []string{"", "named"} {
			for _, f := range []string{"capitalize", "upcase", "size", "downcase"} {
				run(&c16Case{Filter: f, S: str, Recv: recv})
			}
		}
	}
	for _, r := range []struct{ kind, s string }{{"int", "12"}, {"int", "-7"}, {"int", "0"}, {"uint", "65"}, {"uint8", "97"}, {"uint16", "48"}, {"uint32", "8364"}, {"uint64", "12"}, {"int8", "-7"}, {"int64", "66"}, {"float", "2.5"}, {"float", "-0.25"}, {"float", "1e-06"}, {"float", "2.5e-07"}, {"bool", "true"}, {"bool", "false"}, {"nil", ""}} {
		// (size is left out: it is also an array filter, and what it says about a number is not stated)
		for _, f := range []string{"upcase", "downcase", "capitalize", "strip", "escape", "url_encode"} {
			run(&c16Case{Filter: f, S: r.s, Recv: r.kind})
		}
		for _, a := range []string{"x", "", "é"} {
			run(&c16Case{Filter: "append", S: r.s, Recv: r.kind, A: []string{a}})
			run(&c16Case{Filter: "prepend", S: r.s, Recv: r.kind, A: []string{a}})
			run(&c16Case{Filter: "replace", S: r.s, Recv: r.kind, A: []string{"2", a}})
			run(&c16Case{Filter: "remove", S: r.s, Recv: r.kind, A: []string{"e"}})
		}
		for _, i := range []int64{0, 1, 2, 5} {
			run(&c16Case{Filter: "slice", S: r.s, Recv: r.kind, I: []int64{i, 2}})
			run(&c16Case{Filter: "truncate", S: r.s, Recv: r.kind, I: []int64{i}, A: []string{""}})
		}
	}
	app.Sub.Note("the exhaustive part enumerated %d (filter, string, arguments) points over all shards (%d strings)", idx, len(strs))

	// random long strings
	chars := append(append([]string{}, c16Alphabet...), "b", "C", "\t", ">", "'", "\"", "+", "=", "/", "ß", "İ", "&amp;", "&lt;", "%20", "z",
		// letters whose upper-case form has another UTF-8 width (2 -> 3 bytes, 3 -> 2 bytes) and maps back to them
		"ɐ", "ⱥ")
	genStr := rapid.Custom(func(t *rapid.T) string {
		return strings.Join(rapid.SliceOfN(rapid.SampledFrom(chars), 0, 200).Draw(t, "chars"), "")
	})
	col.Rapid(app.Sub, env.PerShard(env.Pick(200000, 2000000)), func(t *rapid.T) {
		c := &c16Case{S: genStr.Draw(t, "s"), Recv: rapid.SampledFrom([]string{"", "", "", "", "named", "namedptr"}).Draw(t, "recv")}
		n := len(runes(c.S))
		switch rapid.IntRange(0, 5).Draw(t, "kind") {
		case 0, 1:
			c.Filter = rapid.SampledFrom(c16NoArg).Draw(t, "f")
		case 2:
			c.Filter = rapid.SampledFrom([]string{"append", "prepend", "remove", "remove_first"}).Draw(t, "f")
			c.A = []string{rapid.SampledFrom(append(c16StrArgs, c.S)).Draw(t, "a")}
		case 3:
			c.Filter = rapid.SampledFrom([]string{"replace", "replace_first"}).Draw(t, "f")
			c.A = []string{rapid.SampledFrom(c16StrArgs).Draw(t, "a"), rapid.SampledFrom(c16StrArgs).Draw(t, "b")}
		case 4:
			c.Filter = "slice"
			c.I = []int64{int64(rapid.IntRange(-n-2, n+2).Draw(t, "start"))}
			if rapid.Bool().Draw(t, "len") {
				c.I = append(c.I, int64(rapid.IntRange(-1, n+2).Draw(t, "n")))
			}
		default:
			c.Filter = rapid.SampledFrom([]string{"truncate", "truncatewords"}).Draw(t, "f")
			c.I = []int64{int64(rapid.IntRange(-3, n+3).Draw(t, "n"))}
			if rapid.Bool().Draw(t, "el") {
				c.A = []string{rapid.SampledFrom([]string{"", "é", "...", "😀!", " [more]"}).Draw(t, "elv")}
			}
		}
		if v := app.Run(c); v != nil {
			t.Fatalf("%s", v.Message)
		}
	})

	na := c16NumArg.On(col, "exhaustive: append / prepend / remove+replace / split with a number as argument and as receiver, the number being 65, 97, 8364, 7, 0 or 12 in every integer width that holds it and as a float; oracle: the number is converted to the text it prints as. Distinct by construction", true)
	for _, f := range []string{"append", "prepend", "remove", "split-join"} {
		for _, n := range []int64{65, 97, 8364, 7, 0, 12} {
			for _, rep := range append(append([]string{}, hx.IntReps...), "float64") {
				if rep != "float64" && !hx.IntFits(n, rep) {
					continue
				}
				idx++
				if env.Mine(idx) {
					na.Run(&c16NumArgCase{Filter: f, Rep: rep, N: n})
				}
			}
		}
	}

	sp := c16Split.On(col, "rapid: 0..6 non-empty pieces free of the separator, joined by a separator of 1..3 characters (punctuation, letters, and white space other than the single space: newline, tab, two spaces, NBSP); oracle: split gives back exactly the pieces (count and content) and join of the split gives back the string. Non-trivial: >= 2 pieces; distinct by string+separator", false)
	col.Rapid(sp.Sub, env.PerShard(env.Pick(60000, 600000)), func(t *rapid.T) {
		sep := rapid.SampledFrom([]string{",", ";", "--", "é", "😀", "&", "<>", "|", "ab", "\n", "  ", "\t", " \n", ", ", "\u00a0", " - "}).Draw(t, "sep")
		piece := rapid.Custom(func(t *rapid.T) string {
			var al []string
			for _, ch := range []string{"x", "Y", " ", "é", "😀", "1", "\n", "%", "\t"} {
				if !strings.Contains(sep, ch) {
					al = append(al, ch) // pieces are free of the separator by construction
				}
			}
			return strings.Join(rapid.SliceOfN(rapid.SampledFrom(al), 1, 5).Draw(t, "pc"), "")
		})
		c := &c16SplitCase{Pieces: rapid.SliceOfN(piece, 0, 6).Draw(t, "pieces"), Sep: sep}
		if v := sp.Run(c); v != nil {
			t.Fatalf("%s", v.Message)
		}
	})
}
