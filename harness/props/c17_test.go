package props

import (
	"fmt"
	"math"
	"math/big"
	"regexp"
	"strconv"
	"strings"
	"testing"

	"pgregory.net/rapid"

	"verifharness/hx"
)

// ---- C17: numeric filters compute exact arithmetic and report impossible operations ----

// An operand of the numeric universe, in JSON-able form.
type c17NamedInt int64
type c17NamedFloat float64

type numOp struct {
	Kind string  `json:"kind"` // int | uint (bound as a uint64) | float | str | nil
	I    int64   `json:"i,omitempty"`
	U    uint64  `json:"u,omitempty"`
	F    float64 `json:"f,omitempty"`
	S    string  `json:"s,omitempty"`
}

func (o numOp) goValue() any {
	switch o.Kind {
	case "int":
		return int(o.I)
	case "uint":
		return o.U
	case "nint":
		return c17NamedInt(o.I)
	case "nfloat":
		return c17NamedFloat(o.F)
	case "float":
		return o.F
	case "str":
		return o.S
	}
	return nil
}

func (o numOp) String() string {
	switch o.Kind {
	case "int":
		return fmt.Sprint(o.I)
	case "uint":
		return fmt.Sprint(o.U) + "u"
	case "nint":
		return fmt.Sprint(o.I) + " (named int type)"
	case "nfloat":
		return strconv.FormatFloat(o.F, 'g', -1, 64) + " (named float type)"
	case "float":
		return strconv.FormatFloat(o.F, 'g', -1, 64) + "f"
	case "str":
		return strconv.Quote(o.S)
	}
	return "nil"
}

// rat returns the exact value: (value, isNumber, isUnspecified)
func (o numOp) rat(receiver bool) (r *big.Rat, ok, unspecified bool) {
	switch o.Kind {
	case "int":
		return new(big.Rat).SetInt64(o.I), true, false
	case "uint":
		return new(big.Rat).SetInt(new(big.Int).SetUint64(o.U)), true, false
	case "nint":
		return new(big.Rat).SetInt64(o.I), true, false
	case "nfloat":
		return new(big.Rat).SetFloat64(o.F), true, false
	case "float":
		return new(big.Rat).SetFloat64(o.F), true, false
	case "str":
		f, err := strconv.ParseFloat(o.S, 64)
		if err != nil || math.IsNaN(f) || math.IsInf(f, 0) {
			return nil, false, false // does not spell a number: an error is expected
		}
		if !receiver {
			// the statement speaks of numeric strings "when given as the receiver"
			return nil, false, true
		}
		if !plainDecimal(o.S) {
			return nil, false, true
		}
		return new(big.Rat).SetFloat64(f), true, false
	}
	return nil, false, true // nil operand: unspecified
}

var decimalWithExponent = regexp.MustCompile(`^-?[0-9]+(\.[0-9]+)?[eE][+-]?[0-9]+$`)

// plainDecimal: digits with an optional sign, fraction and exponent - what everybody agrees spells a number.
func plainDecimal(s string) bool {
	if s == "" {
		return false
	}
	if decimalWithExponent.MatchString(s) {
		return true
	}
	for i, c := range s {
		if !(c >= '0' && c <= '9' || c == '.' || (c == '-' && i == 0)) {
			return false
		}
	}
	return true
}

func exactF64(r *big.Rat) (float64, bool) {
	f, exact := r.Float64()
	return f, exact && !math.IsInf(f, 0)
}

func ratFloor(r *big.Rat) *big.Int {
	q := new(big.Int)
	m := new(big.Int)
	q.DivMod(r.Num(), r.Denom(), m) // Euclidean: m >= 0, so q is the floor for positive denominators
	return q
}

func ratCeil(r *big.Rat) *big.Int {
	f := ratFloor(r)
	if new(big.Rat).SetInt(f).Cmp(r) != 0 {
		f.Add(f, big.NewInt(1))
	}
	return f
}

type c17Case struct {
	Filter string  `json:"filter"`
	A      numOp   `json:"a"`
	B      *numOp  `json:"b,omitempty"` // argument, when the filter takes one
	Chain  []c17St `json:"chain,omitempty"`
}

type c17St struct {
	Filter string `json:"filter"`
	B      *numOp `json:"b,omitempty"`
	Wrap   bool   `json:"wrap,omitempty"` // the argument is written as a parenthesised filtered expression with the same value: (cK | default: 1), for an integer also (cK | ceil) / (cK | floor)
}

func (c *c17Case) source() (string, map[string]any) {
	b := map[string]any{"a": c.A.goValue()}
	src := "{{ a | " + c.Filter
	if c.B != nil {
		b["b"] = c.B.goValue()
		src += ": b"
	}
	for i, st := range c.Chain {
		src += " | " + st.Filter
		if st.B != nil {
			name := fmt.Sprintf("c%d", i)
			b[name] = st.B.goValue()
			if st.Wrap && (st.B.Kind == "int" || st.B.Kind == "float") {
				if st.B.Kind == "int" && i%2 == 0 {
					// "ceil and floor return integers": of an integer, that integer
					name = "(" + name + " | " + []string{"ceil", "floor"}[(i/2)%2] + ")"
				} else {
					name = "(" + name + " | default: 1)"
				}
			}
			src += ": " + name
		}
	}
	return src + " }}", b
}

// exp is the model's verdict for one filter application.
type c17Exp struct {
	unspecified bool
	err         bool     // an error must be reported
	val         *big.Rat // exact expected value (when within is nil)
	within      *big.Rat // integer division: result must be an integer with |result - within| < 1, exact when whole
	mustInt     bool     // ceil / floor: prints an integer
}

func c17Model(filter string, a *big.Rat, bo *numOp) c17Exp {
	var b *big.Rat
	var bInt bool
	if bo != nil {
		r, ok, unspec := bo.rat(false)
		if unspec {
			return c17Exp{unspecified: true}
		}
		if !ok {
			return c17Exp{err: true}
		}
		b, bInt = r, bo.Kind == "int" || bo.Kind == "uint" || bo.Kind == "nint"
	}
	switch filter {
	case "plus":
		return c17Exp{val: new(big.Rat).Add(a, b)}
	case "minus":
		return c17Exp{val: new(big.Rat).Sub(a, b)}
	case "times":
		return c17Exp{val: new(big.Rat).Mul(a, b)}
	case "divided_by":
		if b.Sign() == 0 {
			return c17Exp{err: true}
		}
		q := new(big.Rat).Quo(a, b)
		if bInt {
			return c17Exp{within: q, mustInt: true}
		}
		return c17Exp{val: q}
	case "modulo":
		if b.Sign() == 0 {
			return c17Exp{err: true}
		}
		if a.Sign() < 0 || b.Sign() < 0 {
			return c17Exp{unspecified: true} // sign convention is not stated
		}
		q := new(big.Rat).Quo(a, b)
		fl := new(big.Rat).SetInt(ratFloor(q))
		return c17Exp{val: new(big.Rat).Sub(a, fl.Mul(fl, b))}
	case "abs":
		return c17Exp{val: new(big.Rat).Abs(a)}
	case "ceil":
		return c17Exp{val: new(big.Rat).SetInt(ratCeil(a)), mustInt: true}
	case "floor":
		return c17Exp{val: new(big.Rat).SetInt(ratFloor(a)), mustInt: true}
	case "round":
		places := int64(0)
		if bo != nil {
			// (a negative number of places is exercised but not judged: the statement does not say what it means)
			if bo.Kind != "int" || bo.I < 0 || bo.I > 6 {
				return c17Exp{unspecified: true}
			}
			places = bo.I
		}
		p := new(big.Rat).SetInt(new(big.Int).Exp(big.NewInt(10), big.NewInt(places), nil))
		x := new(big.Rat).Mul(a, p)
		x.Add(x, big.NewRat(1, 2))
		fl := new(big.Rat).SetInt(ratFloor(x))
		return c17Exp{val: fl.Quo(fl, p)}
	}
	return c17Exp{unspecified: true}
}

var c17Apply = hx.Define("c17.apply", func(c *c17Case, s *hx.Sub) *hx.Violation {
	src, binds := c.source()
	o := hx.Render(src, binds)
	if o.Panic != nil {
		return hx.V("panic@"+o.Panic.Site, "%s with a=%v b=%v: %v", src, c.A, c.B, o.Panic)
	}
	// walk the chain through the model
	cur, ok, unspec := c.A.rat(true)
	steps := append([]c17St{{Filter: c.Filter, B: c.B}}, c.Chain...)
	var last c17Exp
	expectErr := false
	if unspec {
		s.Unspec()
		return nil
	}
	if !ok {
		expectErr = true
	}
	nontrivial := false
	for i, st := range steps {
		if expectErr {
			break
		}
		if _, exact := exactF64(cur); !exact {
			s.Unspec() // an intermediate value is not exactly representable
			return nil
		}
		if st.B != nil && st.Filter != "divided_by" {
			// "exact whenever operands and result are exactly representable as 64-bit floats": an argument that
			// is not (2^64-1 as a uint64) leaves the result open - except for the integer division, whose
			// quotient is only asked to lie within 1 of the exact one
			if r, ok, _ := st.B.rat(false); ok {
				if _, exact := exactF64(r); !exact {
					s.Unspec()
					return nil
				}
			}
		}
		last = c17Model(st.Filter, cur, st.B)
		if last.unspecified {
			s.Unspec()
			return nil
		}
		if last.err {
			expectErr = true
			break
		}
		if last.mustInt {
			// ceil, floor and integer division "return integers": results (or, for the
			// division, receivers) beyond the 64-bit integer range are outside what the
			// statement describes
			lim := new(big.Rat).SetInt(new(big.Int).Lsh(big.NewInt(1), 62))
			ref := last.val
			if ref == nil {
				ref = last.within
			}
			if new(big.Rat).Abs(ref).Cmp(lim) >= 0 || new(big.Rat).Abs(cur).Cmp(lim) >= 0 {
				s.Unspec()
				return nil
			}
		}
		if last.within != nil {
			if last.within.IsInt() {
				last.val, last.within = last.within, nil
			} else if i < len(steps)-1 {
				s.Unspec() // rounding direction of inexact integer division is not stated; cannot continue exactly
				return nil
			}
		}
		if st.B != nil && st.B.Kind != "str" && last.val != nil && cur.Sign() != 0 && last.val.Cmp(cur) != 0 {
			nontrivial = true
		}
		if st.B == nil && last.val != nil && last.val.Cmp(cur) != 0 {
			nontrivial = true
		}
		if last.val != nil {
			cur = last.val
		}
	}
	if expectErr {
		if o.Err == nil {
			sig := "no-error:" + c.Filter
			if len(c.Chain) > 0 {
				sig = "no-error:chain"
			}
			return hx.V(sig, "%s with a=%v b=%v rendered %q; the statement requires an error (zero divisor or a string that does not spell a number)", src, c.A, c.B, o.Out)
		}
		s.NTKey(src + fmt.Sprint(binds))
		s.Class("error-expected")
		return nil
	}
	if o.Err != nil {
		return hx.V("unexpected-error:"+c.Filter, "%s with a=%v b=%v failed: %v", src, c.A, c.B, o.Err)
	}
	got, err := strconv.ParseFloat(strings.TrimSpace(o.Out), 64)
	if err != nil {
		return hx.V("not-a-number:"+c.Filter, "%s with a=%v b=%v printed %q", src, c.A, c.B, o.Out)
	}
	sigName := c.Filter
	if len(c.Chain) > 0 {
		sigName = "chain"
	}
	plain := !strings.ContainsAny(o.Out, "eE")
	if last.within != nil {
		gr := new(big.Rat).SetFloat64(got)
		if bi, ok := new(big.Int).SetString(strings.TrimSpace(o.Out), 10); ok {
			gr.SetInt(bi) // a printed integer is read exactly (float64 would round it beyond 2^53)
		}
		d := new(big.Rat).Sub(gr, last.within)
		if !gr.IsInt() || d.Abs(d).Cmp(big.NewRat(1, 1)) >= 0 || strings.Contains(o.Out, ".") {
			return hx.V("value:"+sigName, "%s with a=%v b=%v printed %q; integer division must give an integer within 1 of %s", src, c.A, c.B, o.Out, last.within.FloatString(4))
		}
		s.Class("int-division-inexact")
		s.NTKey(src + fmt.Sprint(binds))
		return nil
	}
	want, exact := exactF64(last.val)
	if !exact {
		s.Unspec() // result not exactly representable
		return nil
	}
	if got != want {
		return hx.V("value:"+sigName, "%s with a=%v b=%v printed %q; exact result is %s", src, c.A, c.B, o.Out, last.val.FloatString(6))
	}
	// "whole-number results print without a fractional part" - also not in the mantissa of an exponent form
	if last.val.IsInt() && strings.Contains(o.Out, ".") {
		return hx.V("fraction-on-whole:"+sigName, "%s with a=%v b=%v printed %q for a whole-number result", src, c.A, c.B, o.Out)
	}
	if last.mustInt && (strings.Contains(o.Out, ".") || !plain) {
		return hx.V("not-integer:"+sigName, "%s printed %q; ceil/floor/integer division return integers", src, o.Out)
	}
	if nontrivial {
		s.NTKey(src + fmt.Sprint(binds))
	}
	if s.WantSample() {
		s.Sample(map[string]any{"template": src, "a": c.A.String(), "b": fmt.Sprint(c.B), "output": o.Out})
	}
	return nil
})

func c17Universe() []numOp {
	var u []numOp
	for i := int64(-12); i <= 12; i++ {
		u = append(u, numOp{Kind: "int", I: i})
	}
	for _, i := range []int64{1 << 31, -(1 << 31), 1<<53 - 1, -(1<<53 - 1), 1 << 53} {
		u = append(u, numOp{Kind: "int", I: i})
	}
	// unsigned integers, also beyond the signed range
	for _, i := range []uint64{0, 3, 1 << 63, math.MaxUint64} {
		u = append(u, numOp{Kind: "uint", U: i})
	}
	// numbers of named Go types (a time.Duration, a money type)
	u = append(u, numOp{Kind: "nint", I: 4}, numOp{Kind: "nint", I: -3}, numOp{Kind: "nint", I: 0}, numOp{Kind: "nfloat", F: 2.5}, numOp{Kind: "nfloat", F: 0})
	for k := -20; k <= 20; k++ {
		u = append(u, numOp{Kind: "float", F: float64(k) / 4})
	}
	// (powers of two far from 1: exactly representable however small or large)
	for _, f := range []float64{1 << 31, float64(1<<53 - 1), 0.125, 1e15 + 0.5, 1.0 / (1 << 32), 1.0 / (1 << 40), -1.0 / (1 << 32), 1 << 40, 3.0 / (1 << 34)} {
		u = append(u, numOp{Kind: "float", F: f})
	}
	for _, s := range []string{"nan", "NaN", "inf", "-Infinity", "3", "-2.5", "07", "010", "0730", "-012", "0010.50", "abc", "", "1x", " 4", "25e-2", "1e3", "1E+2", "-5e-1"} {
		u = append(u, numOp{Kind: "str", S: s})
	}
	u = append(u, numOp{Kind: "nil"})
	return u
}

var c17Binary = []string{"plus", "minus", "times", "divided_by", "modulo"}
var c17Unary = []string{"abs", "ceil", "floor", "round"}

func TestC17(t *testing.T) {
	col := hx.NewCollector("C17")
	defer col.Finish()
	col.Corpus()
	env := col.Env
	u := c17Universe()

	grid := c17Apply.On(col, "exhaustive: every pair of the numeric universe (ints -12..12, +-2^31, +-(2^53-1), 2^53; quarters k/4 |k|<=20; numeric and non-numeric strings; nil) x {plus minus times divided_by modulo}, every value x {abs ceil floor round, round: -2..3 (negative places exercised, not judged)}; then random chains of <= 6 filters, a quarter of the arguments written as a parenthesised filtered expression of the same value. Oracle: exact rational arithmetic (math/big), output parsed to float64. Non-trivial: both operands numbers, result differs from the receiver (or an error is required); distinct by template+bindings", false)
	idx := 0
	for _, f := range c17Binary {
		for i := range u {
			for j := range u {
				idx++
				if !env.Mine(idx) {
					continue
				}
				grid.Run(&c17Case{Filter: f, A: u[i], B: &u[j]})
			}
		}
	}
	for _, f := range c17Unary {
		for i := range u {
			idx++
			if env.Mine(idx) {
				grid.Run(&c17Case{Filter: f, A: u[i]})
			}
			if f == "round" {
				for p := int64(-2); p <= 3; p++ {
					idx++
					if env.Mine(idx) {
						grid.Run(&c17Case{Filter: f, A: u[i], B: &numOp{Kind: "int", I: p}})
					}
				}
			}
		}
	}
	grid.Sub.Note("the grid part (%d points over all shards) is enumerated completely in both tiers", idx)

	// random chains
	nums := []numOp{}
	for _, o := range u {
		if o.Kind == "int" || o.Kind == "float" {
			nums = append(nums, o)
		}
	}
	genOp := rapid.Custom(func(t *rapid.T) numOp {
		switch rapid.IntRange(0, 9).Draw(t, "k") {
		case 0:
			return numOp{Kind: "int", I: rapid.Int64Range(-1000, 1000).Draw(t, "i")}
		case 1:
			return numOp{Kind: "float", F: float64(rapid.IntRange(-400, 400).Draw(t, "q")) / 8}
		case 2:
			return rapid.SampledFrom(u).Draw(t, "u")
		default:
			return rapid.SampledFrom(nums).Draw(t, "n")
		}
	})
	genStep := rapid.Custom(func(t *rapid.T) c17St {
		if rapid.IntRange(0, 3).Draw(t, "unary") == 0 {
			f := rapid.SampledFrom(c17Unary).Draw(t, "f")
			if f == "round" && rapid.Bool().Draw(t, "places") {
				return c17St{Filter: f, B: &numOp{Kind: "int", I: int64(rapid.IntRange(-2, 3).Draw(t, "p"))}, Wrap: rapid.IntRange(0, 3).Draw(t, "wrap") == 0}
			}
			return c17St{Filter: f}
		}
		b := genOp.Draw(t, "b")
		return c17St{Filter: rapid.SampledFrom(c17Binary).Draw(t, "f"), B: &b, Wrap: rapid.IntRange(0, 3).Draw(t, "wrap") == 0}
	})
	col.Rapid(grid.Sub, env.PerShard(env.Pick(200000, 2000000)), func(t *rapid.T) {
		// The chain is drawn step by step with the reference model following along: a step that would
		// leave the part of the domain where the expected value is fixed (an intermediate value that no
		// float64 holds exactly, an inexact integer division in mid-chain, a remainder of negative
		// operands, a nil operand) is redrawn up to three times, so that most chains are judged to
		// their end; one chain in five is left as drawn.
		a := genOp.Draw(t, "a")
		n := rapid.IntRange(2, 6).Draw(t, "nsteps")
		steer := rapid.IntRange(0, 4).Draw(t, "steer") > 0
		cur, isNum, _ := a.rat(true)
		var steps []c17St
		for i := 0; i < n; i++ {
			st := genStep.Draw(t, "step")
			for try := 0; steer && isNum && cur != nil && try < 3; try++ {
				exp := c17Model(st.Filter, cur, st.B)
				good := !exp.unspecified
				if good && exp.val != nil {
					_, good = exactF64(exp.val)
				}
				if good && exp.within != nil && !exp.within.IsInt() && i < n-1 {
					good = false
				}
				if good {
					break
				}
				st = genStep.Draw(t, "step-again")
			}
			steps = append(steps, st)
			if isNum && cur != nil {
				exp := c17Model(st.Filter, cur, st.B)
				switch {
				case exp.val != nil:
					cur = exp.val
				case exp.within != nil && exp.within.IsInt():
					cur = exp.within
				default:
					cur = nil // an error or an open question: the rest of the chain is drawn blind
				}
			}
		}
		c := &c17Case{Filter: steps[0].Filter, A: a, B: steps[0].B, Chain: steps[1:]}
		grid.Sub.Class(fmt.Sprintf("chain-len-%d", len(steps)))
		if v := grid.Run(c); v != nil {
			t.Fatalf("%s", v.Message)
		}
	})
}
