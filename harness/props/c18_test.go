package props

import (
	"fmt"
	"math"
	"strings"
	"testing"
	"time"

	"pgregory.net/rapid"

	"verifharness/hx"
)

// ---- C18: output depends on a binding's Liquid value, not on its Go representation ----

// rerep draws, independently at every node of the value tree, one of the
// representations the statement names for the role the value plays.
func rerep(t *rapid.T, s *hx.Spec, role string, entry bool) *hx.Spec {
	c := s.Clone()
	c.R, c.Drop, c.Ptr = "", 0, false
	// a typed slice or typed map needs all its children in the canonical representation of one kind:
	// left to the independent draws below that almost never happens, so decide it up front
	homogeneous := false
	if (c.K == "arr" || c.K == "map") && len(c.E) > 0 && role != "pstrarr" && role != "ordmap" && rapid.IntRange(0, 3).Draw(t, "homogeneous") == 0 {
		for i, e := range c.E {
			c.E[i] = e.Clone()
			c.E[i].R, c.E[i].Drop, c.E[i].Ptr = "", 0, false
		}
		if k := c.E[0].K; k == "int" || k == "str" || (k == "float" && c.K == "arr") {
			homogeneous = true
			for _, e := range c.E {
				homogeneous = homogeneous && e.K == k
			}
		}
	}
	for i, e := range c.E {
		if homogeneous {
			break
		}
		childRole := "elem"
		if c.K == "map" {
			childRole = "entry"
		}
		if role == "pstrarr" {
			childRole = "pstr-elem"
		}
		c.E[i] = rerep(t, e, childRole, c.K == "map")
	}
	switch c.K {
	case "int":
		var fit []string
		for _, r := range hx.IntReps {
			if hx.IntFits(c.I, r) {
				fit = append(fit, r)
			}
		}
		c.R = rapid.SampledFrom(fit).Draw(t, "intrep")
	case "float":
		if float64(float32(c.F)) == c.F && rapid.Bool().Draw(t, "f32") {
			c.R = "float32"
		}
	case "str":
		if (role == "pstr" || role == "pstr-elem") && rapid.Bool().Draw(t, "bytes") {
			c.R = "bytes"
		}
	case "arr":
		var fit []string
		for _, r := range c.ArrReps() {
			if r != "range" {
				fit = append(fit, r)
			}
		}
		c.R = rapid.SampledFrom(fit).Draw(t, "arrrep")
		if homogeneous {
			c.R = "typed"
		}
	case "map":
		fit := []string{""}
		for _, r := range c.MapReps() {
			if r == "typed" || (r == "mapslice" && role == "ordmap") {
				fit = append(fit, r)
			}
		}
		c.R = rapid.SampledFrom(fit).Draw(t, "maprep")
		if homogeneous {
			c.R = "typed"
		}
	}
	// Drop wrapping anywhere and at any depth
	if c.R != "bytes" || role == "pstr-elem" {
		switch rapid.IntRange(0, 11).Draw(t, "drop") {
		case 0, 1, 2:
			c.Drop = 1
		case 3:
			c.Drop = 2
		}
	}
	// a pointer reached by variable or property lookup
	if (role == "var" || role == "pstr" || role == "ordmap" || entry) && c.K != "nil" && c.R != "bytes" && rapid.IntRange(0, 5).Draw(t, "ptr") == 0 {
		c.Ptr = true
	}
	return c
}

func rerepBinds(t *rapid.T, b hx.Bindings) hx.Bindings {
	out := hx.Bindings{}
	for _, name := range sortedNames(b) {
		role := "var"
		switch name {
		case "bs":
			role = "pstr"
		case "ms":
			role = "ordmap"
		case "ba":
			role = "pstrarr"
		}
		out[name] = rerep(t, b[name], role, false)
	}
	return out
}

func sortedNames(b hx.Bindings) []string {
	var out []string
	for k := range b {
		out = append(out, k)
	}
	for i := 1; i < len(out); i++ {
		for j := i; j > 0 && out[j] < out[j-1]; j-- {
			out[j], out[j-1] = out[j-1], out[j]
		}
	}
	return out
}

type c18Case struct {
	P  *hx.Program `json:"p"`  // canonical bindings
	R1 hx.Bindings `json:"r1"` // the same logical bindings in other representations
}

var c18Prog = hx.Define("c18.programs", func(c *c18Case, s *hx.Sub) *hx.Violation {
	src := hx.Source(c.P.Nodes)
	o0 := hx.RenderWith(newEngine(nil), src, c.P.Binds.Canon2().Realise())
	o1 := hx.RenderWith(newEngine(nil), src, c.R1.Realise())
	for _, o := range []hx.Outcome{o0, o1} {
		if o.Panic != nil {
			return hx.V("panic@"+o.Panic.Site, "%q: %v", src, o.Panic)
		}
	}
	if !o0.Same(o1) {
		diff := ""
		for _, n := range sortedNames(c.R1) {
			if a, b := fmt.Sprintf("%T", c.P.Binds[n].Canon().Realise()), hx.Fingerprint(c.R1[n].Realise()); strings.Contains(src, n) {
				diff += fmt.Sprintf("\n     %s: %s -> %s", n, a, trunc(b, 160))
			}
		}
		return hx.V("c18:representation", "%q renders %v with canonical bindings\n   but %v when the same values are represented as:%s", src, o0, o1, diff)
	}
	if o0.OK() && o0.Out != "" {
		s.NTKey(src + hx.Fingerprint(c.R1.Realise()))
	}
	if o0.Failed() {
		s.Class("both-fail")
	}
	if s.WantSample() {
		s.Sample(map[string]any{"template": src, "output": o0.String(), "representation": trunc(hx.Fingerprint(c.R1.Realise()), 500)})
	}
	return nil
})

// numeric grid: every width prints, compares and enters arithmetic by numeric value

type c18NumCase struct {
	Op    string  `json:"op"`
	A     float64 `json:"a"`
	B     float64 `json:"b"`
	RepA  string  `json:"repa"`
	RepB  string  `json:"repb"`
	DropA bool    `json:"dropa,omitempty"`
	DropB bool    `json:"dropb,omitempty"`
}

func c18Num(v float64, rep string, drop bool) *hx.Spec {
	var s *hx.Spec
	if rep == "float64" || rep == "float32" {
		s = hx.SFloat(v)
		if rep == "float32" {
			s.R = "float32"
		}
	} else {
		s = hx.SInt(int64(v))
		s.R = rep
	}
	if drop {
		s.Drop = 1
	}
	return s
}

var c18Numeric = hx.Define("c18.numeric-grid", func(c *c18NumCase, s *hx.Sub) *hx.Violation {
	var src string
	switch c.Op {
	case "print":
		src = "{{ a }}|{{ a | plus: 0 }}|{{ a | abs }}|{{ a | ceil }}|{{ a | round }}|{% case a %}{% when b %}W{% else %}E{% endcase %}"
	// a number used where an integer is expected
	case "index":
		src = "{{ arr[a] }}|{{ arr[b] }}|{% assign i = a %}{{ arr[i] }}"
	case "range":
		src = "{% for i in (a..a) %}{{ i }}{% endfor %}|{{ (b..b) | join }}|{{ (a..a) | size }}"
	case "loopmod":
		src = "{% for x in arr limit: a %}{{ x }}{% endfor %}|{% for x in arr offset: b %}{{ x }}{% endfor %}|{% tablerow x in arr cols: a %}{{ x }}{% endtablerow %}"
	case "intarg":
		src = "{{ 'abcdef' | slice: a }}|{{ 'abcdef' | slice: 1, b }}|{{ 'abcdef' | truncate: b, '' }}|{{ 'a b c d' | truncatewords: b }}|{{ 1.2345 | round: a }}"
	case "==", "!=", "<", ">", "<=", ">=":
		src = "{{ a " + c.Op + " b }}|{% if a " + c.Op + " b %}T{% else %}F{% endif %}|{% assign l = '' | split: '' | concat: wrap %}{{ l contains b }}"
	default:
		src = "{{ a | " + c.Op + ": b }}"
	}
	canonRep := func(v float64, rep string) string {
		if rep == "float64" || rep == "float32" {
			return "float64"
		}
		return ""
	}
	mk := func(ra, rb string, da, db bool) map[string]any {
		a := c18Num(c.A, ra, da)
		return map[string]any{"a": a.Realise(), "b": c18Num(c.B, rb, db).Realise(), "wrap": []any{c18Num(c.A, ra, da).Realise()}, "arr": []any{10, 20, 30, 40}}
	}
	o0 := hx.Render(src, mk(canonRep(c.A, c.RepA), canonRep(c.B, c.RepB), false, false))
	o1 := hx.Render(src, mk(c.RepA, c.RepB, c.DropA, c.DropB))
	desc := fmt.Sprintf("%s with a=%v as %s%s, b=%v as %s%s", src, c.A, c.RepA, map[bool]string{true: " in a Drop"}[c.DropA], c.B, c.RepB, map[bool]string{true: " in a Drop"}[c.DropB])
	for _, o := range []hx.Outcome{o0, o1} {
		if o.Panic != nil {
			return hx.V("panic@"+o.Panic.Site, "%s: %v", desc, o.Panic)
		}
	}
	if !o0.Same(o1) {
		return hx.V("c18:numeric:"+c.Op, "%s renders %v; with int/float64 operands of the same value it renders %v", desc, o1, o0)
	}
	if c.RepA != "" || c.RepB != "" {
		s.NT()
	}
	if s.WantSample() {
		s.Sample(map[string]any{"case": desc, "output": o1.String()})
	}
	return nil
})

// Drops and pointers as filter input and argument, for every filter

type c18FilterCase struct {
	Filter string `json:"filter"`
	R      string `json:"r"`
	A      string `json:"a,omitempty"`
	Wrap   string `json:"wrap"` // drop | drop2 | ptr | elemdrop
	OnArg  bool   `json:"onarg,omitempty"`
}

func c18Wrap(s *hx.Spec, how string) (*hx.Spec, bool) {
	c := s.Clone()
	switch how {
	case "drop":
		c.Drop++
	case "drop2":
		c.Drop += 2
	case "ptr":
		if c.K == "nil" || c.Ptr || c.R == "bytes" {
			return nil, false
		}
		c.Ptr = true
	case "elemdrop":
		if c.K != "arr" || len(c.E) == 0 || c.R != "" {
			return nil, false
		}
		for _, e := range c.E {
			e.Drop++
		}
	default:
		// "rep:<name>": the array as a typed slice (of any integer width), a fixed array ...
		rep, isRep := strings.CutPrefix(how, "rep:")
		if !isRep || c.K != "arr" || c.R != "" || c.Drop > 0 || c.Ptr {
			return nil, false
		}
		found := false
		for _, r := range c.ArrReps() {
			found = found || r == rep
		}
		if !found || rep == "range" {
			return nil, false
		}
		c.R = rep
	}
	return c, true
}

var c18Filter = hx.Define("c18.filters", func(c *c18FilterCase, s *hx.Sub) *hx.Violation {
	ur, ok := c01Index[c.R]
	if !ok || !ur.Plain {
		return hx.V("harness-error", "bad receiver %q", c.R)
	}
	src := "{{ r | " + c.Filter
	b0 := map[string]any{"r": ur.Spec.Realise()}
	b1 := map[string]any{"r": ur.Spec.Realise()}
	target := ur.Spec
	if c.A != "" {
		ua, ok := c01Index[c.A]
		if !ok || !ua.Plain {
			return hx.V("harness-error", "bad argument %q", c.A)
		}
		src += ": a"
		b0["a"], b1["a"] = ua.Spec.Realise(), ua.Spec.Realise()
		if c.OnArg {
			target = ua.Spec
		}
	}
	src += " }}"
	// what the filter returned is also measured and taken apart: two results that print alike may still differ
	// (an array that kept a Drop for nil prints like one that dropped it)
	ext := strings.Replace(strings.Replace(src, "{{ ", "{% assign q = ", 1), " }}", " %}{{ q | size }}|{{ q | first }}|{{ q | last }}|{{ q | join: ',' }}", 1)
	if c.Wrap == "elemdrop" {
		// Drops nested in an array matter where the filter takes an array; an array passed where a
		// string or number is expected is printed in Go syntax either way (outside the statement)
		takesArray := false
		for _, f := range c08Filters {
			if f.name != c.Filter {
				continue
			}
			if !c.OnArg && f.in == "A" {
				takesArray = true
			}
			if c.OnArg && len(f.args) > 0 && strings.TrimSuffix(f.args[0], "?") == "A" {
				takesArray = true
			}
		}
		if !takesArray {
			s.Exclude()
			return nil
		}
	}
	w, ok := c18Wrap(target, c.Wrap)
	if !ok {
		s.Exclude()
		return nil
	}
	if c.OnArg {
		b1["a"] = w.Realise()
	} else {
		b1["r"] = w.Realise()
	}
	o0, o1 := hx.Render(src, b0), hx.Render(src, b1)
	desc := fmt.Sprintf("%s with r=%s a=%s, %s wrapped as %s", src, c.R, c.A, map[bool]string{true: "argument", false: "receiver"}[c.OnArg], c.Wrap)
	for _, o := range []hx.Outcome{o0, o1} {
		if o.Panic != nil {
			return hx.V("panic@"+o.Panic.Site, "%s: %v", desc, o.Panic)
		}
	}
	if c.Filter == "type" || c.Filter == "inspect" || c.Filter == "json" {
		// these report the Go value itself by design
		s.Unspec()
		return nil
	}
	if !o0.Same(o1) {
		return hx.V("c18:filter:"+c.Filter, "%s renders %v; unwrapped it renders %v", desc, o1, o0)
	}
	if o0.OK() {
		if e0, e1 := hx.Render(ext, b0), hx.Render(ext, b1); e0.Panic == nil && e1.Panic == nil && !e0.Same(e1) {
			return hx.V("c18:filter:"+c.Filter, "%s: the result, measured and taken apart (%s), gives %v; unwrapped it gives %v", desc, ext, e1, e0)
		}
		s.NT()
	} else {
		s.Class("both-fail")
	}
	if s.WantSample() {
		s.Sample(map[string]any{"case": desc, "output": o1.String()})
	}
	return nil
})

// equality between two independently represented copies of one logical value

type c18EqCase struct {
	V  *hx.Spec `json:"v"`  // canonical
	X  *hx.Spec `json:"x"`  // one representation of V
	Y  *hx.Spec `json:"y"`  // another representation of V
	Z  *hx.Spec `json:"z"`  // a different logical value
	ZR *hx.Spec `json:"zr"` // a representation of Z
}

const c18EqSrc = `{{ x == y }}|{{ x != y }}|{{ x == z }}|{% case x %}{% when z %}Z{% when y %}Y{% else %}E{% endcase %}|{{ o contains y }}|{{ o contains z }}|{{ o | uniq | size }}|{% if x == y and y == x %}T{% endif %}`

var c18Eq = hx.Define("c18.equality", func(c *c18EqCase, s *hx.Sub) *hx.Violation {
	mk := func(x, y, z *hx.Spec) map[string]any {
		return map[string]any{"x": x.Realise(), "y": y.Realise(), "z": z.Realise(), "o": []any{x.Realise(), y.Realise(), x.Realise()}}
	}
	o0 := hx.Render(c18EqSrc, mk(c.V, c.V, c.Z))
	o1 := hx.Render(c18EqSrc, mk(c.X, c.Y, c.ZR))
	for _, o := range []hx.Outcome{o0, o1} {
		if o.Panic != nil {
			return hx.V("panic@"+o.Panic.Site, "%s: %v", c18EqSrc, o.Panic)
		}
	}
	if !o0.Same(o1) {
		return hx.V("c18:equality", "with x = %s, y = %s (the same Liquid value %v) and z = %s\n   %s\n   renders %v; with canonical representations %v", trunc(hx.Fingerprint(c.X.Realise()), 200), trunc(hx.Fingerprint(c.Y.Realise()), 200), c.V.Logical(), trunc(hx.Fingerprint(c.ZR.Realise()), 120), c18EqSrc, o1, o0)
	}
	if o0.OK() {
		s.NTKey(hx.Fingerprint(c.X.Realise()) + hx.Fingerprint(c.Y.Realise()) + hx.Fingerprint(c.ZR.Realise()))
	}
	if s.WantSample() {
		s.Sample(map[string]any{"x": trunc(hx.Fingerprint(c.X.Realise()), 200), "y": trunc(hx.Fingerprint(c.Y.Realise()), 200), "output": o1.String()})
	}
	return nil
})

func noPtr(s *hx.Spec) *hx.Spec {
	s.Ptr = false
	for _, e := range s.E {
		noPtr(e)
	}
	return s
}

func c18GenValue(t *rapid.T, depth int) *hx.Spec {
	k := rapid.IntRange(0, 7).Draw(t, "vk")
	if depth == 0 || k < 4 {
		switch k % 4 {
		case 0:
			return hx.SInt(int64(rapid.IntRange(-2, 5).Draw(t, "vi")))
		case 1:
			return hx.SStr(rapid.SampledFrom([]string{"", "a", "b", "1"}).Draw(t, "vs"))
		case 2:
			return hx.SFloat(float64(rapid.IntRange(-2, 6).Draw(t, "vf")) / 2)
		default:
			return rapid.SampledFrom([]*hx.Spec{hx.SNil(), hx.SBool(true), hx.SBool(false)}).Draw(t, "vc").Clone()
		}
	}
	if k == 7 {
		// a string-keyed map (of equal scalars half of the time, so that it can be a typed map)
		m := hx.SMap()
		same := rapid.Bool().Draw(t, "vsame")
		for i, n := 0, rapid.IntRange(0, 3).Draw(t, "vmn"); i < n; i++ {
			m.Keys = append(m.Keys, []string{"a", "b", "c"}[i])
			if same {
				m.E = append(m.E, hx.SInt(int64(rapid.IntRange(0, 2).Draw(t, "vmi"))))
			} else {
				m.E = append(m.E, c18GenValue(t, depth-1))
			}
		}
		return m
	}
	a := hx.SArr()
	for i, n := 0, rapid.IntRange(0, 3).Draw(t, "vn"); i < n; i++ {
		a.E = append(a.E, c18GenValue(t, depth-1))
	}
	return a
}

// (5) pointers to values the value specs cannot hold (times, strings in typed slices): reached by a variable, a
// struct field, a map entry or a loop variable, a pointer behaves as what it points to, and a nil one as nil

type c18PtrCase struct {
	Tpl string `json:"template"`
}

type c18PtrStruct struct {
	T *time.Time
	N *int
	S *string
	Z *time.Time
}

type c18ValStruct struct {
	T time.Time
	N int
	S string
	Z any
}

func c18PtrEnvs() (ptr, plain map[string]any) {
	t1 := time.Date(2024, 2, 29, 13, 14, 15, 0, time.UTC)
	t2 := time.Date(1999, 12, 31, 23, 59, 59, 0, time.FixedZone("X", 3600))
	n1, n2, s1 := 7, -2, "str"
	sa, sb, sc := "apple", "Banana", "cherry"
	var nt *time.Time
	var ni *int
	ptr = map[string]any{
		"pt": &t1, "pn": &n1, "ps": &s1, "nilt": nt,
		"st":   c18PtrStruct{T: &t2, N: &n2, S: &s1},
		"pst":  &c18PtrStruct{T: &t1, N: &n1, S: &s1},
		"m":    map[string]*time.Time{"k": &t1, "z": nil},
		"mi":   map[string]*int{"k": &n1, "z": nil},
		"ints": []*int{&n1, nil, &n2}, "times": []*time.Time{&t2, &t1}, "anys": []any{&n1, &s1, &t1, ni},
		// records whose property is a pointer: map: "n" is a property lookup per element
		"recs":  []any{map[string]any{"n": &n1}, map[string]any{"n": &n2}, map[string]any{"n": &n1}, map[string]any{"n": ni}},
		"srecs": []any{map[string]any{"s": &sb, "id": 1}, map[string]any{"s": &sa, "id": 2}, map[string]any{"s": &sc, "id": 3}},
	}
	plain = map[string]any{
		"pt": t1, "pn": n1, "ps": s1, "nilt": nil,
		"st":   c18ValStruct{T: t2, N: n2, S: s1},
		"pst":  c18ValStruct{T: t1, N: n1, S: s1},
		"m":    map[string]any{"k": t1, "z": nil},
		"mi":   map[string]any{"k": n1, "z": nil},
		"ints": []any{n1, nil, n2}, "times": []any{t2, t1}, "anys": []any{n1, s1, t1, nil},
		"recs":  []any{map[string]any{"n": n1}, map[string]any{"n": n2}, map[string]any{"n": n1}, map[string]any{"n": nil}},
		"srecs": []any{map[string]any{"s": sb, "id": 1}, map[string]any{"s": sa, "id": 2}, map[string]any{"s": sc, "id": 3}},
	}
	return
}

var c18Ptr = hx.Define("c18.pointers", func(c *c18PtrCase, s *hx.Sub) *hx.Violation {
	ptr, plain := c18PtrEnvs()
	o1, o2 := hx.Render(c.Tpl, ptr), hx.Render(c.Tpl, plain)
	if o1.Panic != nil {
		return hx.V("panic@"+o1.Panic.Site, "%s: %v", c.Tpl, o1.Panic)
	}
	if !o2.OK() {
		s.Unspec()
		return nil
	}
	if !o1.Same(o2) {
		return hx.V("c18:pointer", "%s renders %v with pointers (to a time, an int, a string; as variables, struct fields, map entries and slice elements; nil ones too) and %v with the values they point to (nil for the nil ones)", c.Tpl, o1, o2)
	}
	s.NT()
	if s.WantSample() {
		s.Sample(map[string]any{"template": c.Tpl, "output": o1.Out})
	}
	return nil
})

func TestC18(t *testing.T) {
	col := hx.NewCollector("C18")
	defer col.Finish()
	col.Corpus()
	env := col.Env

	prog := c18Prog.On(col, "rapid: role-typed programs - numeric variables only in print / comparison / case-when / arithmetic positions, arrays in for / array-filter / index / size / contains positions, maps in lookup / size / contains, an ordered map (ms) only in lookup and size, a byte slice (bs) only printed - rendered against the canonical realisation ([]any, map[string]any, int, float64, string) and against a realisation in which every node independently takes one of: any fitting numeric width, float32 when exact, typed slice, fixed array, typed map, ordered YAML map (ms), []byte (bs), Drop wrapping (also nested) at any depth, pointer on variables and map entries. Metamorphic oracle: identical result. Non-trivial: renders to non-empty output; distinct by template + representation fingerprint", false)
	prof := hx.FullProfile()
	prof.Tablerow, prof.NumPrint, prof.OrdMap, prof.TypedNames = true, true, true, true
	col.Rapid(prog.Sub, env.PerShard(env.Pick(150000, 1500000)), func(t *rapid.T) {
		p := hx.GenProgram(t, prof)
		c := &c18Case{P: p, R1: rerepBinds(t, p.Binds)}
		if v := prog.Run(c); v != nil {
			t.Fatalf("%s", v.Message)
		}
	})

	pc := c18Ptr.On(col, "exhaustive over a list: pointers to a time, an int and a string as variables, as fields of a struct and of a pointer to one, as map entries, as elements of typed and generic slices, nil ones among them, x {print, date / plus / append / size filters, comparison with itself and a literal, if, case, for with the loop variable printed and filtered, first / last / index, join, sort, array printing}. Metamorphic oracle: identical result with every pointer replaced by what it points to (nil for a nil pointer); unspecified when that reference render fails. Distinct by construction", true)
	{
		var tpls []string
		for _, x := range []string{"pt", "st.T", "pst.T", "m.k", "times[0]", "times.last", "anys[2]"} {
			tpls = append(tpls, "{{ "+x+" }}", `{{ `+x+` | date: "%Y-%m-%d %H:%M" }}`, "{% if "+x+" %}T{% else %}F{% endif %}", "{{ "+x+" == "+x+" }}|{{ "+x+" == pt }}|{{ "+x+" != nil }}", `{{ "at " | append: `+x+` }}`)
		}
		for _, x := range []string{"pn", "st.N", "pst.N", "mi.k", "ints[0]", "ints.last", "anys.first"} {
			tpls = append(tpls, "{{ "+x+" }}", "{{ "+x+" | plus: 1 }}|{{ 1 | minus: "+x+" }}", "{{ "+x+" == 7 }}|{{ "+x+" < 0 }}|{{ "+x+" >= pn }}", "{% case "+x+" %}{% when 7 %}seven{% when -2 %}minus{% else %}other{% endcase %}", "{% for i in (1.."+x+") %}{{ i }}{% endfor %}")
		}
		for _, x := range []string{"ps", "st.S", "pst.S", "anys[1]"} {
			tpls = append(tpls, "{{ "+x+" }}", "{{ "+x+" | upcase }}|{{ "+x+" | size }}|{{ "+x+".size }}", `{{ `+x+` == "str" }}|{{ `+x+` contains "t" }}`)
		}
		for _, x := range []string{"nilt", "st.Z", "m.z", "mi.z", "ints[1]", "anys.last", "anys[3]"} {
			tpls = append(tpls, "[{{ "+x+" }}]", "{% if "+x+" %}T{% else %}F{% endif %}", "{{ "+x+" == nil }}|{{ "+x+" | default: 'd' }}", "{% for i in "+x+" %}x{% else %}E{% endfor %}")
		}
		for _, a := range []string{"ints", "times", "anys"} {
			tpls = append(tpls, "{{ "+a+" }}", `{{ `+a+` | join: "," }}`, "{% for p in "+a+" %}[{{ p }}]{% endfor %}", "{{ "+a+" | size }}|{{ "+a+".size }}", "{{ "+a+" | first }}|{{ "+a+" | last }}|{{ "+a+" | reverse | first }}", "{% tablerow p in "+a+" %}{{ p }}{% endtablerow %}")
		}
		// (filters that look at the elements of an array without a lookup - compact, uniq, sort, contains - are left out:
		// the statement speaks of pointers reached by variable or property lookup)
		tpls = append(tpls, `{{ recs | map: "n" | compact | sort | join: "," }}`, `{{ recs | map: "n" | uniq | size }}`, `{{ recs | map: "n" | compact | size }}`, `{% assign ns = recs | map: "n" %}{{ ns contains 7 }}|{{ ns | first | plus: 1 }}`, `{{ recs | sort: "n" | map: "n" | join: "," }}`,
			`{{ srecs | sort_natural: "s" | map: "id" | join: "," }}`, `{{ srecs | sort: "s" | map: "id" | join: "," }}`, `{{ srecs | map: "s" | sort_natural | join: "," }}`)
		tpls = append(tpls, `{% for p in times %}{{ p | date: "%Y" }},{% endfor %}`, `{% for p in ints %}{{ p | plus: 1 }},{% endfor %}`,
			`{% for kv in m %}{{ kv[0] }}={{ kv[1] }};{% endfor %}`, `{% for kv in mi %}{{ kv[0] }}={{ kv[1] | plus: 1 }};{% endfor %}`, `{{ m | size }}|{{ mi.size }}`, `{% assign q = pt %}{{ q }}|{{ q | date: "%s" }}`, `{% capture q %}{{ pt }}{{ pn }}{{ ps }}{% endcapture %}{{ q }}`)
		for i, tpl := range tpls {
			if env.Mine(i) {
				pc.Run(&c18PtrCase{Tpl: tpl})
			}
		}
	}

	eq := c18Eq.On(col, "rapid: a logical value (scalar, array or string-keyed map, nested to depth 2) realised twice with independently drawn representations at every node (numeric widths, typed slices, fixed arrays, typed maps, Drops at any depth) and a second value z; x == y, x != y, x == z, case x / when z / when y, array-of-arrays contains y / z, uniq over [x, y, x]; metamorphic oracle: same result as with canonical representations. Non-trivial: renders; distinct by the three representation fingerprints", false)
	col.Rapid(eq.Sub, env.PerShard(env.Pick(150000, 1500000)), func(t *rapid.T) {
		v := c18GenValue(t, 2)
		if v.K != "arr" && rapid.Bool().Draw(t, "wrap") {
			v = hx.SArr(v, c18GenValue(t, 1))
		}
		z := c18GenValue(t, 2)
		// (no pointers here: the statement speaks of pointers reached by variable or property lookup, and comparing
		// whole containers reaches their entries without one)
		c := &c18EqCase{V: v, X: noPtr(rerep(t, v, "elem", false)), Y: noPtr(rerep(t, v, "elem", false)), Z: z, ZR: noPtr(rerep(t, z, "elem", false))}
		if res := eq.Run(c); res != nil {
			t.Fatalf("%s", res.Message)
		}
	})

	num := c18Numeric.On(col, "exhaustive: values {0,1,2,3,7,100,-1,-8,2.5,-0.5,4.0} x every numeric representation that holds them exactly (int int8..int64 uint uint8..uint64 float32 float64), with and without a Drop, as receiver and as argument of print / plus minus times divided_by modulo / the six comparison operators / case-when / array contains / the positions that expect an integer (index, range bound, limit, offset, cols, slice, truncate, truncatewords, round); metamorphic oracle: same result as with int / float64 operands. Distinct by construction", true)
	vals := []float64{0, 1, 2, 3, 7, 100, -1, -8, 2.5, -0.5, 4.0}
	reps := append(append([]string{}, hx.IntReps...), "float32", "float64")
	fits := func(v float64, rep string) bool {
		if rep == "float64" {
			return true
		}
		if rep == "float32" {
			return float64(float32(v)) == v
		}
		return v == math.Trunc(v) && hx.IntFits(int64(v), rep)
	}
	ops := []string{"print", "index", "range", "loopmod", "intarg", "plus", "minus", "times", "divided_by", "modulo", "==", "!=", "<", ">", "<=", ">="}
	idx := 0
	for _, op := range ops {
		for _, a := range vals {
			for _, b := range vals {
				if op == "print" && b != vals[1] && b != a {
					continue
				}
				for _, ra := range reps {
					for _, rb := range reps {
						if !fits(a, ra) || !fits(b, rb) {
							continue
						}
						// quick: vary one side at a time against a few partner representations
						if !env.Thorough() && ra != "" && rb != "" && ra != "float64" && rb != "float64" && ra != rb {
							continue
						}
						idx++
						if !env.Mine(idx) {
							continue
						}
						num.Run(&c18NumCase{Op: op, A: a, B: b, RepA: ra, RepB: rb, DropA: idx%3 == 0, DropB: idx%5 == 0})
					}
				}
			}
		}
	}

	si, err := hx.ReadSrcInfo()
	if err != nil {
		t.Fatal(err)
	}
	flt := c18Filter.On(col, fmt.Sprintf("exhaustive: every standard filter (%d) x receiver in the plain universe, and x (receiver, argument) pairs drawn from a reduced universe, with the receiver or the argument wrapped in a Drop, a nested Drop, a pointer, (arrays) with every element wrapped in a Drop, or (arrays) as a typed slice of any integer width or a fixed array - in every position, also where a string or a number is expected; metamorphic oracle: same result as unwrapped (type/inspect/json, which report the Go value by design, are unspecified). Distinct by construction", len(si.Filters)), true)
	pu := valueUniverse()
	small := []string{"nil", "1", "2", "-1", "2.5", `"abc"`, `"a"`, `""`, "[3,1,2]", "[nil,1,nil]", "[mixed]", "[maps]", "{a:1,b:2}", "true"}
	for _, f := range si.Filters {
		for _, r := range pu {
			for _, w := range []string{"drop", "drop2", "ptr", "elemdrop", "rep:typed", "rep:array", "rep:typed:int8", "rep:typed:int32", "rep:typed:int64", "rep:typed:uint16", "rep:typed:uint", "rep:typed:float32"} {
				idx++
				if env.Mine(idx) {
					flt.Run(&c18FilterCase{Filter: f, R: r.Name, Wrap: w})
				}
			}
		}
		for _, r := range small {
			for _, a := range small {
				for _, w := range []string{"drop", "ptr", "elemdrop", "rep:typed", "rep:array", "rep:typed:int32", "rep:typed:uint16"} {
					for _, onArg := range []bool{false, true} {
						idx++
						if env.Mine(idx) {
							flt.Run(&c18FilterCase{Filter: f, R: r, A: a, Wrap: w, OnArg: onArg})
						}
					}
				}
			}
		}
	}
}
