package props

import (
	"fmt"
	"strings"
	"testing"

	"github.com/osteele/liquid"
	"github.com/osteele/liquid/render"
	"pgregory.net/rapid"

	"verifharness/hx"
)

// ---- C19: custom delimiters are equivalent to the defaults, hyphens included ----

type c19Case struct {
	D        [4]string   `json:"d"` // as passed to Engine.Delims ("" = default for that position)
	P        *hx.Program `json:"p"`
	Hy       []bool      `json:"hy,omitempty"`
	Fail     int         `json:"fail"`                // 0 none; n > 0: a failing object after n newlines at the end
	Prev     *[4]string  `json:"prev,omitempty"`      // an earlier Delims call on the same engine (the later call decides)
	PrevUsed bool        `json:"prev_used,omitempty"` // with Prev: something is parsed and rendered between the two Delims calls
	Inc      bool        `json:"inc,omitempty"`       // the template is registered with ParseTemplateAndCache and rendered through an include tag
}

// c19ViaInclude registers src under a name and renders a template that includes it.
func c19ViaInclude(eng *liquid.Engine, src string, d hx.Delims, b map[string]any) (o hx.Outcome) {
	var perr liquid.SourceError
	if pi := hx.Guard(func() { _, perr = eng.ParseTemplateAndCache([]byte(src), "c19inc.html", 1) }); pi != nil {
		return hx.Outcome{Panic: pi}
	}
	if perr != nil {
		return hx.Outcome{Err: perr, ParseErr: true}
	}
	top := hx.Spell([]hx.Tok{{Kind: hx.TText, Body: "A"}, {Kind: hx.TTag, Body: "include 'c19inc.html'", Name: "include"}, {Kind: hx.TText, Body: "Z"}}, d, nil)
	return hx.RenderWith(eng, top, b)
}

var c19Defaults = [4]string{"{{", "}}", "{%", "%}"}

func c19Effective(d [4]string) hx.Delims {
	e := d
	for i := range e {
		if e[i] == "" {
			e[i] = c19Defaults[i]
		}
	}
	return hx.Delims{OL: e[0], OR: e[1], TL: e[2], TR: e[3]}
}

// c19Valid: four distinct strings none of which contains another.
func c19Valid(d hx.Delims) bool {
	q := []string{d.OL, d.OR, d.TL, d.TR}
	for i := range q {
		for j := range q {
			// "four distinct, mutually non-prefixing" strings (one may well occur inside another)
			if i != j && strings.HasPrefix(q[i], q[j]) {
				return false
			}
		}
	}
	return true
}

var c19Engines = map[[4]string]*liquid.Engine{}

func c19Engine(d [4]string) *liquid.Engine {
	if e, ok := c19Engines[d]; ok {
		return e
	}
	if len(c19Engines) > 5000 {
		c19Engines = map[[4]string]*liquid.Engine{}
	}
	e := newEngine(nil)
	e.Delims(d[0], d[1], d[2], d[3])
	c19Engines[d] = e
	return e
}

var c19Default = newEngine(nil)

func c19Tokens(c *c19Case) []hx.Tok {
	toks := hx.MergeText(hx.Tokens(c.P.Nodes, nil))
	if c.Fail > 0 {
		toks = append(toks, hx.Tok{Kind: hx.TText, Body: strings.Repeat("\n", c.Fail)}, hx.Tok{Kind: hx.TObj, Body: "1 | nosuchfilter"})
		toks = hx.MergeText(toks)
	}
	return toks
}

var c19Equiv = hx.Define("c19.equivalence", func(c *c19Case, s *hx.Sub) *hx.Violation {
	eff := c19Effective(c.D)
	if !c19Valid(eff) {
		s.Exclude()
		return nil
	}
	toks := c19Tokens(c)
	// the statement is about templates *written with* the delimiters: their characters must not occur in contents
	chars := eff.OL + eff.OR + eff.TL + eff.TR + "{}%"
	for _, t := range toks {
		if strings.ContainsAny(t.Body, chars) {
			s.Exclude()
			return nil
		}
	}
	custom := hx.Spell(toks, eff, c.Hy)
	deflt := hx.Spell(toks, hx.DefaultDelims, c.Hy)
	b := c.P.Binds
	var oc hx.Outcome
	var eng *liquid.Engine
	if pi := hx.Guard(func() {
		if c.Prev != nil {
			eng = newEngine(nil)
			eng.Delims(c.Prev[0], c.Prev[1], c.Prev[2], c.Prev[3])
			if c.PrevUsed {
				// the engine is used under its first configuration before it is given the second
				pe := c19Effective(*c.Prev)
				_, _ = eng.ParseAndRenderString(hx.Spell([]hx.Tok{{Kind: hx.TText, Body: "a"}, {Kind: hx.TObj, Body: "1"}, {Kind: hx.TTag, Body: "assign q = 2", Name: "assign"}}, pe, nil), nil)
			}
			eng.Delims(c.D[0], c.D[1], c.D[2], c.D[3])
		} else {
			eng = c19Engine(c.D)
		}
	}); pi != nil {
		return hx.V("panic@"+pi.Site, "Delims(%q): %v", c.D, pi)
	}
	var od hx.Outcome
	if c.Inc {
		if strings.ContainsAny("'", chars) {
			s.Exclude()
			return nil
		}
		oc = c19ViaInclude(eng, custom, eff, b.Realise())
		od = c19ViaInclude(c19Default, deflt, hx.DefaultDelims, b.Realise())
		s.Class("through-include")
	} else {
		oc = hx.RenderWith(eng, custom, b.Realise())
		od = hx.RenderWith(c19Default, deflt, b.Realise())
	}
	if oc.Panic != nil {
		return hx.V("panic@"+oc.Panic.Site, "Delims(%q) on %q: %v", c.D, custom, oc.Panic)
	}
	if od.Panic != nil {
		return hx.V("panic@"+od.Panic.Site, "%q: %v", deflt, od.Panic)
	}
	if !oc.Same(od) {
		return hx.V("c19:differs", "with Delims(%q, %q, %q, %q) the template %q renders %v\n   the same template with the default delimiters %q renders %v", c.D[0], c.D[1], c.D[2], c.D[3], custom, oc, deflt, od)
	}
	if oc.Err != nil && oc.Err.LineNumber() != od.Err.LineNumber() {
		return hx.V("c19:error-line", "with Delims%q the template %q fails at line %d (%v); with the default delimiters %q fails at line %d (%v)", c.D, custom, oc.Err.LineNumber(), oc.Err, deflt, od.Err.LineNumber(), od.Err)
	}
	hasHy := false
	for _, h := range c.Hy {
		hasHy = hasHy || h
	}
	if eff != hx.DefaultDelims && (hasHy || hasNode(c.P.Nodes, "raw") || hasNode(c.P.Nodes, "comment")) {
		s.NTKey(custom + "\x00" + strings.Join(c.D[:], "\x00"))
	}
	if oc.Err != nil {
		s.Class("both-fail-same-line")
	}
	for i, d := range c.D {
		if d == "" {
			s.Class(fmt.Sprintf("empty-position-%d", i))
		}
	}
	if s.WantSample() {
		s.Sample(map[string]any{"delims": c.D, "template": custom, "output": oc.String()})
	}
	return nil
})

// the default delimiter strings are ordinary text for an engine with other delimiters

type c19TextCase struct {
	D    [4]string `json:"d"`
	Text string    `json:"text"`
}

var c19Text = hx.Define("c19.defaults-are-text", func(c *c19TextCase, s *hx.Sub) *hx.Violation {
	eff := c19Effective(c.D)
	q := []string{eff.OL, eff.OR, eff.TL, eff.TR}
	if !c19Valid(eff) {
		s.Exclude()
		return nil
	}
	for _, d := range q {
		if strings.Contains(c.Text, d) || strings.ContainsAny(d, "{}%") {
			s.Exclude()
			return nil
		}
	}
	src := c.Text + eff.OL + " 1 " + eff.OR + c.Text
	var eng *liquid.Engine
	if pi := hx.Guard(func() { eng = c19Engine(c.D) }); pi != nil {
		return hx.V("panic@"+pi.Site, "Delims(%q): %v", c.D, pi)
	}
	o := hx.RenderWith(eng, src, nil)
	if o.Panic != nil {
		return hx.V("panic@"+o.Panic.Site, "Delims(%q) on %q: %v", c.D, src, o.Panic)
	}
	want := c.Text + "1" + c.Text
	if !o.OK() || o.Out != want {
		return hx.V("c19:default-delimiters-not-text", "with Delims%q the template %q renders %v; the default delimiter strings are ordinary text, expected %q", c.D, src, o, want)
	}
	s.NTKey(src + strings.Join(c.D[:], "\x00"))
	if s.WantSample() {
		s.Sample(map[string]any{"delims": c.D, "template": src, "output": o.Out})
	}
	return nil
})

// a tag at the very end of the source that is shorter than the object-left delimiter

type c19ShortCase struct {
	D    [4]string `json:"d"`
	Pre  string    `json:"pre"`
	Name string    `json:"name"`
}

var c19Short = hx.Define("c19.short-final-tag", func(c *c19ShortCase, s *hx.Sub) *hx.Violation {
	eff := c19Effective(c.D)
	if !c19Valid(eff) {
		s.Exclude()
		return nil
	}
	custom, deflt := c.Pre+eff.TL+c.Name+eff.TR, c.Pre+"{%"+c.Name+"%}"
	oc, od := hx.RenderWith(c19Engine(c.D), custom, nil), hx.RenderWith(c19Default, deflt, nil)
	if oc.Panic != nil {
		return hx.V("panic@"+oc.Panic.Site, "Delims(%q) on %q: %v", c.D, custom, oc.Panic)
	}
	if od.Panic != nil {
		return hx.V("panic@"+od.Panic.Site, "%q: %v", deflt, od.Panic)
	}
	if oc.Kind() != od.Kind() || oc.Out != od.Out || (oc.Err != nil && oc.Err.LineNumber() != od.Err.LineNumber()) {
		return hx.V("c19:differs", "with Delims%q the template %q renders %v\n   the same template with the default delimiters %q renders %v", c.D, custom, oc, deflt, od)
	}
	s.NT()
	if s.WantSample() {
		s.Sample(map[string]any{"delims": c.D, "template": custom, "output": oc.String()})
	}
	return nil
})

// a tag registered by the caller that expands objects in its argument (render.Context.ExpandTagArg)

var c19Expand = hx.Define("c19.expand-tag-arg", func(c *c19ShortCase, s *hx.Sub) *hx.Violation {
	eff := c19Effective(c.D)
	if !c19Valid(eff) {
		s.Exclude()
		return nil
	}
	mk := func(d *[4]string) *liquid.Engine {
		e := newEngine(nil)
		if d != nil {
			e.Delims(d[0], d[1], d[2], d[3])
		}
		e.RegisterTag("expand", func(ctx render.Context) (string, error) {
			out, err := ctx.ExpandTagArg()
			return "[" + out + "]", err
		})
		return e
	}
	toks := []hx.Tok{{Kind: hx.TText, Body: c.Pre}, {Kind: hx.TTag, Name: "expand", Body: "expand " + c.Name}}
	custom := strings.ReplaceAll(strings.ReplaceAll(hx.Spell(toks, eff, nil), "((", eff.OL), "))", eff.OR)
	deflt := strings.ReplaceAll(strings.ReplaceAll(hx.Spell(toks, hx.DefaultDelims, nil), "((", "{{"), "))", "}}")
	b := map[string]any{"x": 1, "s": "str"}
	oc, od := hx.RenderWith(mk(&c.D), custom, b), hx.RenderWith(mk(nil), deflt, b)
	if oc.Panic != nil {
		return hx.V("panic@"+oc.Panic.Site, "Delims(%q) on %q: %v", c.D, custom, oc.Panic)
	}
	if od.Panic != nil {
		return hx.V("panic@"+od.Panic.Site, "%q: %v", deflt, od.Panic)
	}
	if !oc.Same(od) {
		return hx.V("c19:expand-differs", "with Delims%q and a tag that expands its argument, %q renders %v\n   the same template with the default delimiters %q renders %v", c.D, custom, oc, deflt, od)
	}
	s.NT()
	if s.WantSample() {
		s.Sample(map[string]any{"delims": c.D, "template": custom, "output": oc.String()})
	}
	return nil
})

// contents that hold single characters of the delimiters (which the generated templates avoid), where the reading is not in doubt

type c19PairCase struct {
	D       [4]string `json:"d"`
	Custom  string    `json:"custom"`
	Default string    `json:"default"`
}

var c19Pairs = hx.Define("c19.delimiter-characters-in-content", func(c *c19PairCase, s *hx.Sub) *hx.Violation {
	b := map[string]any{"x": 1, "a": []any{1, 2, 3}}
	oc, od := hx.RenderWith(c19Engine(c.D), c.Custom, b), hx.RenderWith(c19Default, c.Default, b)
	if oc.Panic != nil {
		return hx.V("panic@"+oc.Panic.Site, "Delims(%q) on %q: %v", c.D, c.Custom, oc.Panic)
	}
	if od.Panic != nil {
		return hx.V("panic@"+od.Panic.Site, "%q: %v", c.Default, od.Panic)
	}
	if !od.OK() {
		s.Exclude()
		return nil
	}
	if !oc.Same(od) {
		return hx.V("c19:differs", "with Delims%q the template %q renders %v\n   the same template with the default delimiters %q renders %v", c.D, c.Custom, oc, c.Default, od)
	}
	s.NT()
	if s.WantSample() {
		s.Sample(map[string]any{"delims": c.D, "template": c.Custom, "output": oc.String()})
	}
	return nil
})

var c19Small = []string{"<", ">", "[", "]", "\\", "^"}

func TestC19(t *testing.T) {
	col := hx.NewCollector("C19")
	defer col.Finish()
	col.Corpus()
	env := col.Env

	prof := hx.FullProfile()
	prof.Tablerow, prof.PlainPunct, prof.MaxNodes, prof.WSText = true, true, 8, true
	eq := c19Equiv.On(col, "exhaustive over the quadruples of strings of length 1..2 over < > [ ] \\ ^ (four distinct strings none containing another; all length-1 quadruples in both tiers, all length <= 2 in the thorough tier, a seeded sample in quick), random quadruples of length 1..4 over the ASCII punctuation that template contents do not need, each subset of positions left empty (= default); x rapid-generated templates (objects, assign, if/unless/case, for/tablerow, cycle, capture, raw and comment blocks, whitespace-rich text) re-spelled with the quadruple, with random whitespace-control hyphens and optionally one failing object on a later line; a fifth of the random cases register the template with ParseTemplateAndCache and render it through an include tag. Metamorphic oracle: the custom engine on the re-spelled template = the default engine on the default spelling (same bytes, or both fail with the same LineNumber). Templates whose contents contain a delimiter character are excluded and counted. Non-trivial: non-default quadruple and the template has a hyphen or a raw/comment block; distinct by (quadruple, template)", false)

	// template pool for the enumerations (drawn once per shard through rapid so that it is reproducible)
	var pool []*c19Case
	col.Rapid(eq.Sub, 40, func(t *rapid.T) {
		p := hx.GenProgram(t, prof)
		c := &c19Case{P: p, Fail: rapid.IntRange(0, 3).Draw(t, "fail")}
		k := hx.CountTags(c19Tokens(c))
		c.Hy = rapid.SliceOfN(rapid.Bool(), 2*k, 2*k).Draw(t, "hy")
		pool = append(pool, c)
		c.D = c19Defaults
		if v := eq.Run(c); v != nil {
			t.Fatalf("%s", v.Message)
		}
	})
	sh := c19Short.On(col, "exhaustive over a list: object delimiters of length 1..4, tag delimiters of length 1 x a final tag with a name of 1..5 letters (undefined names, break, else, raw, if without a condition) written without blanks, preceded by nothing, text or a newline. Oracle: same output, or failure on the same line, as the default spelling on a default engine. Distinct by construction", true)
	{
		i := 0
		for _, ol := range []string{"<<<<", "[[[", "^^", "\\"} {
			for _, tt := range [][2]string{{"<", ">"}, {"[", "]"}, {"^", "\\"}} {
				for _, pre := range []string{"", "ab ", "ab\n", "\n\n"} {
					for _, name := range []string{"q", "xy", "if", "raw", "else", "break"} {
						i++
						if env.Mine(i) {
							sh.Run(&c19ShortCase{D: [4]string{ol, strings.Repeat(">", len(ol)), tt[0], tt[1]}, Pre: pre, Name: name})
							sh.Run(&c19ShortCase{D: [4]string{ol, "]]", tt[0], tt[1]}, Pre: pre, Name: name})
						}
					}
				}
			}
		}
	}
	ex := c19Expand.On(col, "exhaustive over a list: delimiter quadruples (lengths 1..3, positions left empty) x arguments of a caller-registered tag that calls ExpandTagArg: plain, with one and two objects, with a filter, with a failing object. Oracle: same result as the default spelling on a default engine with the same tag. Distinct by construction", true)
	{
		i := 0
		for _, d := range [][4]string{{"<<", ">>", "<%", "%>"}, {"[", "]", "^", "\\"}, {"<<<", ">>>", "[", "]"}, {"", "", "<%", "%>"}, {"<<", ">>", "", ""}, {"", ">>", "", ""}, {"", "]]", "<%", "%>"}, {"<<", "", "", "%>"}, {"[[", "]]", "[%", "%]"}} {
			for _, arg := range []string{"plain", "a(( x ))b", "(( x ))", "(( s | upcase )) and (( x | plus: 1 ))", "a (( 1 | nosuchfilter )) b"} {
				for _, pre := range []string{"", "t\n"} {
					i++
					if env.Mine(i) {
						ex.Run(&c19ShortCase{D: d, Pre: pre, Name: arg})
					}
				}
			}
		}
	}
	pr := c19Pairs.On(col, "exhaustive over a list: templates whose text and expressions hold single characters of two-character delimiters (a parenthesised range directly after an object opener made of parentheses, comparison signs in text next to angle-bracket delimiters, a minus sign first in an object), with white space around the objects. Oracle: same result as the default spelling on a default engine. Distinct by construction", true)
	for i, c := range []c19PairCase{
		{[4]string{"((", "))", "(%", "%)"}, "a  (((-1..1) | join: \",\"))  b", "a  {{(-1..1) | join: \",\"}}  b"},
		{[4]string{"((", "))", "(%", "%)"}, "a  (( (1..2) | join ))  b (%if (x == 1)%) y (%endif%)", "a  {{ (1..2) | join }}  b {%if (x == 1)%} y {%endif%}"},
		{[4]string{"<<", ">>", "<%", "%>"}, "a < b  <<x>>  c > d <%if x > 0%>p<%endif%>", "a < b  {{x}}  c > d {%if x > 0%}p{%endif%}"},
		{[4]string{"<<", ">>", "<%", "%>"}, "a  <<-1>>  b  << -1 >>  c  <<- -1 ->>  d", "a  {{-1}}  b  {{ -1 }}  c  {{- -1 -}}  d"},
		{[4]string{"<<", ">>", "<?", "?>"}, "<? capture ok? ?>x<? endcapture ?>[<< ok? >>]<? assign v_? = 2 ?>[<< v_? >>]", "{% capture ok? %}x{% endcapture %}[{{ ok? }}]{% assign v_? = 2 %}[{{ v_? }}]"},
		{[4]string{"((", "))", "{%", "_}"}, "{% capture v_ _}c{% endcapture _}[(( v_ ))]", "{% capture v_ %}c{% endcapture %}[{{ v_ }}]"},
		// arguments that end in the first character of the closing tag delimiter, with no blank before the closer
		{[4]string{"<<", ">>", "<(", ")>"}, "<( for i in (1..3))><< i >><( endfor )>|<(if (x == 1))>y<(endif)>", "{% for i in (1..3)%}{{ i }}{% endfor %}|{%if (x == 1)%}y{%endif%}"},
		{[4]string{"<<", ">>", "<[", "]>"}, "<[ assign v = a[0]]>[<< v >>]<[ assign w = a[1]-]>  [<< w >>]", "{% assign v = a[0]%}[{{ v }}]{% assign w = a[1]-%}  [{{ w }}]"},
		{[4]string{"<<", ">>", "<(", ")>"}, "a <( for i in (1..3)-)>  << i >> <( endfor -)>  b", "a {% for i in (1..3)-%}  {{ i }} {% endfor -%}  b"},
		{[4]string{"[[", "]]", "[%", "%]"}, "t  [[a[0] ]]  [ u ]  [%if a[1] == 2%]  v[%endif%]", "t  {{a[0] }}  [ u ]  {%if a[1] == 2%}  v{%endif%}"},
	} {
		if env.Mine(i) {
			c := c
			pr.Run(&c)
		}
	}
	strs := append([]string{}, c19Small...)
	for _, a := range c19Small {
		for _, b := range c19Small {
			strs = append(strs, a+b)
		}
	}
	idx := 0
	runQuad := func(d [4]string, n int) {
		for i := 0; i < n && len(pool) > 0; i++ {
			idx++
			base := pool[idx%len(pool)]
			c := *base
			c.D = d
			eq.Run(&c)
		}
	}
	// all length-1 quadruples, with every subset of positions left empty
	for _, a := range c19Small {
		for _, b := range c19Small {
			for _, c := range c19Small {
				for _, d := range c19Small {
					q := [4]string{a, b, c, d}
					if !c19Valid(c19Effective(q)) {
						continue
					}
					idx++
					if !env.Mine(idx) {
						continue
					}
					runQuad(q, 3)
					for mask := 1; mask < 16; mask++ {
						e := q
						for i := 0; i < 4; i++ {
							if mask&(1<<i) != 0 {
								e[i] = ""
							}
						}
						runQuad(e, 1)
					}
				}
			}
		}
	}
	if env.Thorough() {
		for _, a := range strs {
			for _, b := range strs {
				for _, c := range strs {
					for _, d := range strs {
						q := [4]string{a, b, c, d}
						if len(a)+len(b)+len(c)+len(d) == 4 || !c19Valid(c19Effective(q)) {
							continue
						}
						idx++
						if env.Mine(idx) {
							runQuad(q, 3)
						}
					}
				}
			}
		}
	}
	punct := []string{"<", ">", "[", "]", "{", "}", "%", "#", "$", "&", "*", "+", "/", ";", "?", "@", "\\", "^", "`", "~"}
	var punctNoDefault []string
	for _, p := range punct {
		if !strings.ContainsAny(p, "{}%") {
			punctNoDefault = append(punctNoDefault, p)
		}
	}
	genDelimFrom := func(pool []string, maxLen int) *rapid.Generator[string] {
		return rapid.Custom(func(t *rapid.T) string {
			if rapid.IntRange(0, 7).Draw(t, "empty") == 0 {
				return ""
			}
			return strings.Join(rapid.SliceOfN(rapid.SampledFrom(pool), 1, maxLen).Draw(t, "d"), "")
		})
	}
	genQuad := func(pool []string) *rapid.Generator[[4]string] {
		return rapid.Custom(func(t *rapid.T) [4]string {
			var q [4]string
			small := rapid.Bool().Draw(t, "small")
			for i := range q {
				if small {
					q[i] = rapid.SampledFrom(strs).Draw(t, "s")
				} else {
					q[i] = genDelimFrom(pool, 4).Draw(t, "g")
				}
			}
			return q
		}).Filter(func(q [4]string) bool { return c19Valid(c19Effective(q)) })
	}
	col.Rapid(eq.Sub, env.PerShard(env.Pick(150000, 1500000)), func(t *rapid.T) {
		q := genQuad(punct).Draw(t, "quadruple")
		p := hx.GenProgram(t, prof)
		c := &c19Case{D: q, P: p, Fail: rapid.IntRange(0, 3).Draw(t, "fail")}
		k := hx.CountTags(c19Tokens(c))
		if rapid.IntRange(0, 3).Draw(t, "hyphens") > 0 {
			c.Hy = rapid.SliceOfN(rapid.Bool(), 2*k, 2*k).Draw(t, "hy")
		}
		if rapid.IntRange(0, 3).Draw(t, "reconfigured") == 0 {
			prev := genQuad(punct).Draw(t, "previous-quadruple")
			c.Prev = &prev
			c.PrevUsed = rapid.Bool().Draw(t, "used-between")
		}
		c.Inc = rapid.IntRange(0, 4).Draw(t, "through-include") == 0
		if v := eq.Run(c); v != nil {
			t.Fatalf("%s", v.Message)
		}
	})

	txt := c19Text.On(col, "rapid: engines with non-default delimiters (same generators) given text that contains the default delimiter strings ({{ x }}, {% if y %}, {%- raw -%}, lone {{ and %}); oracle: the text is emitted verbatim around a custom-delimited object. Quadruples that contain {, } or % are excluded. Distinct by (quadruple, text)", false)
	texts := []string{"{{ x }}", "{% if y %}", "a {{ 1 }} b {% endif %}", "{%- raw -%}", "{{", "%}", "}} {%", "{{- 2 -}}\n{% comment %}"}
	col.Rapid(txt.Sub, env.PerShard(env.Pick(30000, 300000)), func(t *rapid.T) {
		// no { } % here, and never an empty (= default) position: the defaults must not be delimiters
		q := genQuad(punctNoDefault).Filter(func(q [4]string) bool { return q[0] != "" && q[1] != "" && q[2] != "" && q[3] != "" }).Draw(t, "quadruple")
		c := &c19TextCase{D: q, Text: rapid.SampledFrom(texts).Draw(t, "text")}
		if v := txt.Run(c); v != nil {
			t.Fatalf("%s", v.Message)
		}
	})
}
