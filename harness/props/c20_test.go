package props

import (
	"errors"
	"fmt"
	"strings"
	"testing"

	"github.com/osteele/liquid"
	"pgregory.net/rapid"

	"verifharness/hx"
)

// ---- C20: a failing output writer stops the render with an error, never a panic ----

var errWriter = errors.New("verif-sentinel-writer-failure")

// recWriter records every Write call and the number of ticks evaluated so far.
type recWriter struct {
	calls []string
	ticks []int
	tick  *int
}

func (w *recWriter) Write(b []byte) (int, error) {
	w.calls = append(w.calls, string(b))
	w.ticks = append(w.ticks, *w.tick)
	return len(b), nil
}

// faultWriter fails at call k, accepting either nothing or a strict prefix there; a sticky one
// fails at every later call too, the other kind works again afterwards (what it is handed then
// is counted, not kept: the statement is about what was accepted before the failure).
type faultWriter struct {
	k        int
	partial  bool
	once     bool
	n        int
	accepted strings.Builder
	after    int // calls made after the failing one
	afterBuf []string
	err      error // what the failing calls return (errWriter unless set)
}

// errList is a writer error of an unhashable type (a list of messages)
type errList []string

func (e errList) Error() string { return strings.Join(e, "; ") }

func (w *faultWriter) failure() error {
	if w.err != nil {
		return w.err
	}
	return errWriter
}

func (w *faultWriter) Write(b []byte) (int, error) {
	defer func() { w.n++ }()
	if w.n < w.k {
		w.accepted.Write(b)
		return len(b), nil
	}
	if w.n > w.k {
		w.after++
		w.afterBuf = append(w.afterBuf, string(b))
		if w.once {
			return len(b), nil
		}
		return 0, w.failure()
	}
	if w.partial && len(b) > 1 {
		w.accepted.Write(b[:len(b)/2])
		return len(b) / 2, w.failure()
	}
	return 0, w.failure()
}

type c20Case struct {
	P    *hx.Program `json:"p"`
	Hy   []bool      `json:"hy,omitempty"`
	Incl bool        `json:"incl,omitempty"` // the template also includes a cached template
}

const c20Included = "<inc {{ n | tick }}{% for q in (1..2) %}{{ q }}{% endfor %}>"

func c20Engine(ticks *int) *liquid.Engine {
	e := newEngine(ticks)
	if _, err := e.ParseTemplateAndCache([]byte(c20Included), "inc.html", 1); err != nil {
		panic(err)
	}
	return e
}

func (c *c20Case) source() string {
	toks := hx.MergeText(hx.Tokens(c.P.Nodes, nil))
	src := hx.Spell(toks, hx.DefaultDelims, c.Hy)
	if c.Incl {
		src = "a{% include \"inc.html\" %}" + src + "{% include 'inc.html' %}z"
	}
	return src
}

var c20Fault = hx.Define("c20.write-faults", func(c *c20Case, s *hx.Sub) *hx.Violation {
	src := c.source()
	// fault-free run
	ticks := 0
	eng := c20Engine(&ticks)
	rec := &recWriter{tick: &ticks}
	var tpl *liquid.Template
	var err liquid.SourceError
	if pi := hx.Guard(func() {
		tpl, err = eng.ParseString(src)
		if err == nil {
			err = tpl.FRender(rec, c.P.Binds.Realise())
		}
	}); pi != nil {
		return hx.V("panic@"+pi.Site, "%q: %v", src, pi)
	}
	if err != nil {
		s.Exclude() // the template itself fails: nothing to enumerate
		return nil
	}
	full := strings.Join(rec.calls, "")
	W := len(rec.calls)
	totalTicks := ticks
	for k := 0; k < W; k++ {
		for mode := 0; mode < 4; mode++ {
			partial, once := mode%2 == 1, mode >= 2
			for _, entry := range []string{"FRender", "ParseAndFRender"} {
				s.Eval()
				t2 := 0
				e2 := c20Engine(&t2)
				fw := &faultWriter{k: k, partial: partial, once: once}
				// every other fault point fails with an error value of an unhashable type
				list := (k+mode)%2 == 1
				if list {
					fw.err = errList{errWriter.Error(), "second message"}
				}
				var ferr liquid.SourceError
				pi := hx.Guard(func() {
					if entry == "FRender" {
						tp, perr := e2.ParseString(src)
						if perr != nil {
							ferr = perr
							return
						}
						ferr = tp.FRender(fw, c.P.Binds.Realise())
					} else {
						ferr = e2.ParseAndFRender(fw, []byte(src), c.P.Binds.Realise())
					}
				})
				desc := fmt.Sprintf("%s of %q to a writer that fails at call %d of %d (%s; %s)", entry, src, k, W, map[bool]string{true: "after accepting a strict prefix", false: "accepting nothing"}[partial], map[bool]string{true: "only that once", false: "and from then on"}[once])
				if pi != nil {
					return hx.V("panic@"+pi.Site, "%s: %v", desc, pi)
				}
				if ferr == nil {
					return hx.V("c20:success-reported", "%s returned nil: the failure of the writer was swallowed", desc)
				}
				var msg string
				var cause error
				if pi := hx.Guard(func() { msg, cause = ferr.Error(), ferr.Cause(); _ = ferr.Path(); _ = ferr.LineNumber() }); pi != nil {
					return hx.V("c20:error-accessor-panic@"+pi.Site, "%s returned an error whose accessors panic: %v", desc, pi)
				}
				isFailure := func(e error) bool {
					if l, ok := e.(errList); ok {
						return list && len(l) == 2
					}
					return !list && e == errWriter
				}
				if !strings.Contains(msg, errWriter.Error()) || !reaches(cause, isFailure) {
					return hx.V("c20:failure-not-carried", "%s returned %q (cause %v), which does not carry the writer's failure: the message is to name it and the cause chain is to lead to the writer's error value", desc, msg, cause)
				}
				if !strings.HasPrefix(full, fw.accepted.String()) {
					return hx.V("c20:not-a-prefix", "%s: the writer accepted %q, which is not a prefix of the fault-free output %q", desc, fw.accepted.String(), full)
				}
				// evaluation stops: at most what a fault-free render had evaluated by the write after next
				limit := totalTicks
				if k+2 < W {
					limit = rec.ticks[k+2]
				}
				if t2 > limit {
					return hx.V("c20:render-continued", "%s: %d counting filters had been evaluated when the call returned; a fault-free render has evaluated %d by the write after next: rendering did not stop", desc, t2, limit)
				}
				// whatever is still handed to the writer continues the fault-free output: it is the next chunk, not
				// something written before or a second copy of what just failed
				if fw.after == 1 && k+1 < W && fw.afterBuf[0] != rec.calls[k+1] {
					return hx.V("c20:writes-after-failure", "%s: after the failure the writer was handed %q; the chunk that follows in a fault-free render is %q", desc, fw.afterBuf[0], rec.calls[k+1])
				}
				if fw.after == 1 && k+1 >= W {
					return hx.V("c20:writes-after-failure", "%s: after the failure of the last write the writer was handed %q", desc, fw.afterBuf[0])
				}
				if fw.after > 1 {
					return hx.V("c20:writes-after-failure", "%s: %d further Write calls were made after the failure", desc, fw.after)
				}
				if W >= 3 && (k > 0 || partial) {
					s.NTKey(fmt.Sprint(src, k, mode, entry))
				}
			}
		}
	}
	s.Class(fmt.Sprintf("writes-%d", min(W, 20)/5*5))
	if s.WantSample() {
		s.Sample(map[string]any{"template": src, "write_calls": W, "fault_points": W * 8})
	}
	return nil
})

func tickify(nodes []*hx.N) {
	for _, n := range nodes {
		if n.T == "obj" && n.E.T != "cmp" && n.E.T != "bool" {
			n.E = hx.Flt(n.E, "tick")
		}
		tickify(n.Body)
		for _, cl := range n.Cl {
			tickify(cl.Body)
		}
	}
}

func TestC20(t *testing.T) {
	col := hx.NewCollector("C20")
	defer col.Finish()
	col.Corpus()
	env := col.Env

	chk := c20Fault.On(col, "fault enumeration: rapid-generated programs covering every tag (objects, assign, if/unless/case, for and tablerow with else/break/continue, cycle, capture, comment, raw, include of a cached template, whitespace-control hyphens); a fault-free FRender into a recording writer gives the W write calls, then for EVERY k in 0..W-1 x {the writer accepts nothing, accepts a strict prefix} x {it keeps failing afterwards, it fails only that once} x {Template.FRender, Engine.ParseAndFRender} a fault writer fails at call k with a sentinel error. Oracle: no panic; a non-nil SourceError whose message names the sentinel and whose cause chain (Cause/Unwrap) leads to the sentinel value; the accepted bytes are a prefix of the fault-free output; evaluation stops (counting filters evaluated <= the fault-free count at the write after next; at most one further Write call). evaluations counts fault points; non-trivial: W >= 3 and (k > 0 or a partial write); distinct by (template, k, mode, entry point)", false)
	chk.Sub.Exhaustive = false
	prof := hx.FullProfile()
	prof.Tablerow, prof.WSText, prof.Ticks, prof.MaxNodes, prof.BareJumps, prof.LongText = true, true, true, 10, true, true
	col.Rapid(chk.Sub, env.PerShard(env.Pick(8000, 80000)), func(t *rapid.T) {
		p := hx.GenProgram(t, prof)
		// values that print as several writes or as nothing (arrays with nil / empty tails), at random places
		for i, n := 0, rapid.IntRange(0, 2).Draw(t, "arrays"); i < n; i++ {
			obj := hx.Obj(rapid.SampledFrom([]*hx.E{hx.Var("x"), hx.Var("w"), hx.Var("a"), hx.Var("tail"), hx.Flt(hx.Var("x"), "reverse"), hx.Var("nl")}).Draw(t, "arr"))
			at := rapid.IntRange(0, len(p.Nodes)).Draw(t, "at")
			p.Nodes = append(p.Nodes[:at:at], append([]*hx.N{obj}, p.Nodes[at:]...)...)
		}
		p.Binds["tail"] = hx.SArr(hx.SStr("p"), hx.SNil(), hx.SStr(""))
		// templates that end in a loop, a jump or an empty print: the last flush is the interesting one
		if rapid.Bool().Draw(t, "strip-tail") {
			for len(p.Nodes) > 1 && p.Nodes[len(p.Nodes)-1].T == "text" {
				p.Nodes = p.Nodes[:len(p.Nodes)-1]
			}
		}
		// ... or in a loop whose last action is a break / continue with output still buffered
		endsInJump := rapid.IntRange(0, 3).Draw(t, "jump-ending") == 0
		if endsInJump {
			jump := &hx.N{T: rapid.SampledFrom([]string{"break", "continue"}).Draw(t, "jk")}
			body := []*hx.N{hx.Text(rapid.SampledFrom([]string{"", "<", " "}).Draw(t, "jt")), hx.Obj(hx.Var("i"))}
			switch rapid.IntRange(0, 2).Draw(t, "jump-place") {
			case 0:
				body = append(body, jump)
			case 1:
				body = append(body, &hx.N{T: "if", E: hx.Cmp("==", hx.Prop(hx.Var("forloop"), "index"), hx.LInt(int64(rapid.IntRange(1, 3).Draw(t, "jat")))), Body: []*hx.N{jump}}, hx.Text("-"))
			default:
				body = append(body, &hx.N{T: "if", E: hx.Prop(hx.Var("forloop"), "last"), Body: []*hx.N{jump}}, hx.Text("-"))
			}
			p.Nodes = append(p.Nodes, &hx.N{T: rapid.SampledFrom([]string{"for", "for", "tablerow"}).Draw(t, "jl"), S: "i", E: hx.RangeE(hx.LInt(1), hx.LInt(3)), Body: body})
		}
		tickify(p.Nodes)
		c := &c20Case{P: p, Incl: !endsInJump && rapid.IntRange(0, 2).Draw(t, "incl") == 0}
		if rapid.Bool().Draw(t, "hyphens") {
			k := hx.CountTags(hx.Tokens(p.Nodes, nil))
			c.Hy = rapid.SliceOfN(rapid.Bool(), 2*k, 2*k).Draw(t, "hy")
		}
		if v := chk.Run(c); v != nil {
			t.Fatalf("%s", v.Message)
		}
	})
}
