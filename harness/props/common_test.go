package props

import (
	"errors"
	"fmt"
	"regexp"
	"strings"

	"github.com/osteele/liquid"

	"verifharness/hx"
)

// progCase is a generated program, how it is spelled, and the engine mode.
type progCase struct {
	P      *hx.Program `json:"p"`
	Sp     []int       `json:"sp,omitempty"`
	Strict bool        `json:"strict,omitempty"`
}

var errSentinel = errors.New("verif-sentinel-filter-error")

// newEngine returns a fresh engine with the harness's two observation filters:
// `tick` (identity, counts evaluations) and `fail` (always returns an error).
func newEngine(ticks *int) *liquid.Engine {
	e := liquid.NewEngine()
	e.RegisterFilter("tick", func(v any) any {
		if ticks != nil {
			*ticks++
		}
		return v
	})
	e.RegisterFilter("fail", func(v any) (any, error) { return nil, errSentinel })
	return e
}

var rowTags = regexp.MustCompile(`</?t[rd][^>]*>`)

func hasNode(nodes []*hx.N, typ string) bool {
	for _, n := range nodes {
		if n.T == typ || hasNode(n.Body, typ) {
			return true
		}
		for _, c := range n.Cl {
			if hasNode(c.Body, typ) {
				return true
			}
		}
	}
	return false
}

func countNodes(nodes []*hx.N) int {
	k := 0
	for _, n := range nodes {
		k += 1 + countNodes(n.Body)
		for _, c := range n.Cl {
			k += countNodes(c.Body)
		}
	}
	return k
}

// modelVsImpl renders the program with the implementation and with the
// reference model and compares. It returns (violation, specified).
func modelVsImpl(c *progCase, s *hx.Sub, prefix string) (*hx.Violation, bool) {
	src := hx.SourceSp(c.P.Nodes, &hx.Spacer{Seq: c.Sp})
	ticks := 0
	eng := newEngine(&ticks)
	if c.Strict {
		eng.StrictVariables()
	}
	o := hx.RenderWith(eng, src, c.P.Binds.Realise())
	if o.Panic != nil {
		return hx.V("panic@"+o.Panic.Site, "%q: %v", src, o.Panic), true
	}
	m := hx.NewModel(c.P.Binds.Logical())
	m.Strict = c.Strict
	want, st := m.Render(c.P.Nodes)
	switch st {
	case hx.StUnspec:
		s.Unspec()
		s.Class("unspecified: " + firstWords(m.Why, 6))
		return nil, false
	case hx.StErr:
		if o.Err == nil {
			return hx.V(prefix+":no-error", "%q rendered %q; the model requires an error (%s)", src, o.Out, m.Why), true
		}
		return nil, true
	}
	if o.Err != nil {
		return hx.V(prefix+":unexpected-error", "%q failed: %v; the model expects %q", src, o.Err, want), true
	}
	got := o.Out
	if hasNode(c.P.Nodes, "tablerow") {
		got = rowTags.ReplaceAllString(got, "")
	}
	if got != want {
		return hx.V(prefix+":output", "%q with %v\n   rendered %q\n   expected %q", src, c.P.Binds.Logical(), got, want), true
	}
	if ticks < m.Ticks || ticks > m.TicksHi {
		return hx.V(prefix+":ticks", "%q evaluated %d tick filters, the model %d..%d (conditions after the chosen branch must not be evaluated)", src, ticks, m.Ticks, m.TicksHi), true
	}
	return nil, true
}

func firstWords(s string, n int) string {
	f := strings.Fields(s)
	if len(f) > n {
		f = f[:n]
	}
	return strings.Join(f, " ")
}

func bindingsString(b hx.Bindings) string { return fmt.Sprint(b.Logical()) }
