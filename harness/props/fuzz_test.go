package props

import (
	"encoding/json"
	"strings"
	"testing"

	"verifharness/hx"
)

// Native fuzz targets (thorough tier only; driven by driver/verifdrv.py with
// `go test -fuzz`). Each target decodes the bytes into the case type of an
// existing check and applies that check's oracle, so a crasher is an ordinary
// violation with an ordinary replay file. A listed known finding is skipped.

func fuzzReport(t *testing.T, property string, v *hx.Violation, check string, c any) {
	if v == nil {
		return
	}
	v.Property, v.Check, v.Case = property, check, hx.MustJSON(c)
	if _, known := hx.MatchFinding(hx.LoadFindings(property), *v); known {
		return
	}
	b, _ := json.Marshal(v)
	t.Fatalf("VERIF-VIOLATION %s", b)
}

var fuzzSub = func() *hx.Sub { return hx.NewCollector("fuzz").Sub("fuzz", "", false) }()

func FuzzParseAndRender(f *testing.F) {
	si, err := hx.ReadSrcInfo()
	if err != nil {
		f.Fatal(err)
	}
	for _, tpl := range si.Templates {
		f.Add([]byte(tpl))
	}
	for _, e := range si.Exprs {
		f.Add([]byte("{{ " + e + " }}"))
	}
	for _, s := range dictSnippets {
		f.Add([]byte("{{ " + s + " }}"))
		f.Add([]byte("{% " + s + " %}"))
	}
	for _, l := range hostileLits {
		f.Add([]byte("{{ u9 | slice: " + l + " }}{{ u9 | truncate: " + l + " }}{{ " + l + " }}"))
	}
	f.Fuzz(func(t *testing.T, data []byte) {
		c := &c01SrcCase{Src: string(data), Binds: "small"}
		if c01Excluded(c.Src) || len(data) > 4096 {
			t.Skip()
		}
		fuzzReport(t, "C01", c01Source.Eval(c, fuzzSub), "c01.source", c)
	})
}

func FuzzScan(f *testing.F) {
	for _, s := range []string{"", "{{ a }}", "{% if x %}\n{% endif %}", "{{- a -}}\n{%- b -%}", "a\n{{\nb\n}}\nc", "{% raw %}{{ x }}{% endraw %}", "}}{{%}{%", "{{ '}}' }}", "{%%}{{}}"} {
		f.Add([]byte(s), 1)
	}
	f.Fuzz(func(t *testing.T, data []byte, start int) {
		if start < 0 || start > 1<<20 || len(data) > 1<<16 {
			t.Skip()
		}
		c := &c05ScanCase{S: string(data), Start: start}
		fuzzReport(t, "C05", c05Scan.Eval(c, fuzzSub), "c05.scan", c)
	})
}

func FuzzBlocks(f *testing.F) {
	f.Add([]byte{0, 21, 11})
	f.Add([]byte{2, 10, 21, 8, 21, 13})
	f.Add([]byte{3, 0, 8, 11, 14})
	f.Add([]byte{6, 0, 17, 7, 11, 18})
	f.Fuzz(func(t *testing.T, data []byte) {
		if len(data) > 64 {
			t.Skip()
		}
		c := &c06Case{}
		for _, b := range data {
			c.Seq = append(c.Seq, int(b)%len(c06Alphabet))
		}
		fuzzReport(t, "C06", c06Seq.Eval(c, fuzzSub), "c06.sequences", c)
	})
}

func FuzzDelims(f *testing.F) {
	f.Add("<", ">", "[", "]", uint8(1), uint16(0))
	f.Add("<<", ">>", "{%", "%}", uint8(2), uint16(5))
	f.Add("", "", "\\", "^", uint8(3), uint16(1023))
	f.Add("[[", "]]", "<%", "%>", uint8(0), uint16(77))
	pool := fuzzDelimPool()
	f.Fuzz(func(t *testing.T, a, b, c, d string, pick uint8, hy uint16) {
		for _, s := range []string{a, b, c, d} {
			if len(s) > 4 || strings.ContainsAny(s, "-\"'|:,.()=! \t\r\nabcdefghijklmnopqrstuvwxyzABCDEFGHIJKLMNOPQRSTUVWXYZ0123456789_") {
				t.Skip()
			}
			for _, r := range s {
				if r > 126 || r < 33 {
					t.Skip()
				}
			}
		}
		base := *pool[int(pick)%len(pool)]
		base.D = [4]string{a, b, c, d}
		k := 2 * hx.CountTags(c19Tokens(&base))
		base.Hy = make([]bool, k)
		for i := range base.Hy {
			base.Hy[i] = hy&(1<<(i%16)) != 0
		}
		fuzzReport(t, "C19", c19Equiv.Eval(&base, fuzzSub), "c19.equivalence", &base)
	})
}

// a small fixed pool of templates for FuzzDelims (hand-written so that the target needs no generator)
func fuzzDelimPool() []*c19Case {
	mk := func(fail int, nodes ...*hx.N) *c19Case {
		return &c19Case{P: &hx.Program{Nodes: nodes, Binds: hx.Bindings{"n": hx.SInt(2), "s": hx.SStr(" pad "), "a": hx.SArr(hx.SInt(1), hx.SInt(2))}}, Fail: fail}
	}
	g := "g"
	return []*c19Case{
		mk(0, hx.Text(" a "), hx.Obj(hx.Var("n")), hx.Text(" \n b ")),
		mk(2, hx.Text("x "), &hx.N{T: "if", E: hx.Cmp("==", hx.Var("n"), hx.LInt(2)), Body: []*hx.N{hx.Text(" yes ")}, Cl: []*hx.Clause{{T: "else", Body: []*hx.N{hx.Text(" no ")}}}}, hx.Text(" y")),
		mk(0, &hx.N{T: "for", S: "i", E: hx.Var("a"), Body: []*hx.N{hx.Text(" "), hx.Obj(hx.Var("i")), {T: "cycle", G: &g, Vals: []string{"p", "q"}}, hx.Text("\n")}}),
		mk(1, &hx.N{T: "raw", S: " r a w "}, hx.Text(" t "), &hx.N{T: "comment", S: " c "}, hx.Obj(hx.Flt(hx.Var("s"), "strip"))),
		mk(3, hx.Capture("c1", hx.Text(" in "), hx.Obj(hx.Var("s"))), hx.Text(" "), hx.Obj(hx.Var("c1")), hx.Assign("v1", hx.Flt(hx.Var("a"), "join", hx.LStr("+"))), hx.Obj(hx.Var("v1"))),
	}
}
