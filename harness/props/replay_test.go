package props

import (
	"encoding/json"
	"fmt"
	"os"
	"testing"

	"verifharness/hx"
)

// TestReplay re-executes one saved case (VERIF_REPLAY=<file>), bypassing rapid.
func TestReplay(t *testing.T) {
	path := os.Getenv("VERIF_REPLAY")
	if path == "" {
		t.Skip("VERIF_REPLAY not set")
	}
	b, err := os.ReadFile(path)
	if err != nil {
		t.Fatal(err)
	}
	var v struct {
		Check string          `json:"check"`
		Case  json.RawMessage `json:"case"`
	}
	if err := json.Unmarshal(b, &v); err != nil {
		t.Fatal(err)
	}
	got, err := hx.Replay(v.Check, v.Case)
	switch {
	case err != nil:
		fmt.Printf("REPLAY-ERROR %v\n", err)
	case got != nil:
		fmt.Printf("REPLAY-VIOLATION check=%s sig=%s\n  %s\n", v.Check, got.Sig, got.Message)
	default:
		fmt.Printf("REPLAY-OK check=%s\n", v.Check)
	}
}
